"""A transient write error while an npz shard is being closed: DatasetFiller.__exit__ closes the
same shard a second time (rewriting the file in place) and commits it; the abandoned ZipFile of the
first attempt is finalised later and writes its central directory into the committed file."""
import errno, gc, io, os, sys, tempfile, zipfile
from pathlib import Path
import numpy as np
from sedpack.io import Dataset, Metadata
from sedpack.io.metadata import Attribute, DatasetStructure

root = Path(tempfile.mkdtemp()) / "ds"
ds = Dataset.create(path=root, metadata=Metadata(description="x"), dataset_structure=DatasetStructure(
    saved_data_description=[Attribute(name="x", dtype="float32", shape=(8,))],
    examples_per_shard=4, shard_file_type="npz", compression="ZIP",
    hash_checksum_algorithms=("sha256",)))

# one-shot fault: the 2nd write() reaching an .npz file fails with ENOSPC
state = {"writes": 0, "fired": False}
class Raw(io.FileIO):
    def write(self, b):
        if self.name.endswith(".npz") and not state["fired"]:
            state["writes"] += 1
            if state["writes"] == 2:
                state["fired"] = True
                raise OSError(errno.ENOSPC, os.strerror(errno.ENOSPC), self.name)
        return super().write(b)
real_open = io.open
def fake_open(file, mode="r", buffering=-1, *a, **kw):
    if isinstance(file, (str, os.PathLike)) and str(file).endswith(".npz") and "w" in mode:
        return io.BufferedWriter(Raw(os.fspath(file), "w"), 64)
    return real_open(file, mode, buffering, *a, **kw)
io.open = fake_open
import builtins; builtins.open = fake_open

with ds.filler() as filler:  # a first, committed session (before the fault is armed)
    state["fired"] = True
    for i in range(100, 104):
        filler.write_example(values={"x": np.full((8,), i, dtype=np.float32)}, split="train")
state["fired"] = False
try:
    with ds.filler() as filler:
        for i in range(6):
            filler.write_example(values={"x": np.full((8,), i, dtype=np.float32)}, split="train")
except Exception as e:  # pylint: disable=broad-except
    print("session raised:", type(e).__name__, e)
gc.collect()
io.open = real_open; builtins.open = real_open
fresh = Dataset(root)
try:
    fresh.check(show_progressbar=False)
    got = [int(e["x"][0]) for e in fresh.as_numpy_iterator(split="train", repeat=False, shuffle=0)]
    print("check passes; examples", got)
    sys.exit(0)
except Exception as e:  # pylint: disable=broad-except
    print("COMMITTED DATASET IS CORRUPT:", type(e).__name__, str(e)[:200])
    sys.exit(1)
