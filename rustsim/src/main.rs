//! Deterministic harness for `sedpack_rs::parallel_map::parallel_map`.
//!
//! The mapped function `fun` registers its task as *arrived* and blocks until
//! the controller *releases* it; the source iterator counts pulls.  The
//! controller waits for quiescence (every other thread of the process asleep,
//! read from /proc/self/task/*/stat on two consecutive polls) and then picks,
//! with a seeded PRNG, which arrived task completes next.  One seed = one
//! completion order.  No candidate while the consumer is unfinished = deadlock.
use std::collections::BTreeSet;
use std::sync::atomic::{AtomicBool, AtomicUsize, Ordering};
use std::sync::{Condvar, Mutex};

use sedpack_rs::parallel_map::parallel_map;

struct Gate {
    arrived: BTreeSet<u64>,
    released: BTreeSet<u64>,
}

static GATE: Mutex<Gate> = Mutex::new(Gate { arrived: BTreeSet::new(), released: BTreeSet::new() });
static GATE_CV: Condvar = Condvar::new();
static PULLS: AtomicUsize = AtomicUsize::new(0);
static CONSUMER_DONE: AtomicBool = AtomicBool::new(false);

fn fun(task: u64) -> u64 {
    let mut g = GATE.lock().unwrap();
    g.arrived.insert(task);
    while !g.released.contains(&task) {
        g = GATE_CV.wait(g).unwrap();
    }
    drop(g);
    task * 2 + 1
}

struct Source {
    next: u64,
    n: u64,
}

impl Iterator for Source {
    type Item = u64;
    fn next(&mut self) -> Option<u64> {
        if self.next >= self.n {
            return None;
        }
        PULLS.fetch_add(1, Ordering::SeqCst);
        self.next += 1;
        Some(self.next - 1)
    }
}

struct Rng(u64);
impl Rng {
    fn next(&mut self) -> u64 {
        // splitmix64
        self.0 = self.0.wrapping_add(0x9E3779B97F4A7C15);
        let mut z = self.0;
        z = (z ^ (z >> 30)).wrapping_mul(0xBF58476D1CE4E5B9);
        z = (z ^ (z >> 27)).wrapping_mul(0x94D049BB133111EB);
        z ^ (z >> 31)
    }
    fn below(&mut self, n: u64) -> u64 {
        self.next() % n
    }
}

fn own_tid() -> u64 {
    std::fs::read_link("/proc/thread-self")
        .ok()
        .and_then(|p| p.file_name().map(|s| s.to_string_lossy().parse::<u64>().unwrap_or(0)))
        .unwrap_or(0)
}

/// (number of other threads, all of them sleeping)
fn others_state(me: u64) -> (usize, bool) {
    let mut n = 0;
    let mut all_sleeping = true;
    if let Ok(rd) = std::fs::read_dir("/proc/self/task") {
        for e in rd.flatten() {
            let tid: u64 = e.file_name().to_string_lossy().parse().unwrap_or(0);
            if tid == me {
                continue;
            }
            let stat = match std::fs::read_to_string(e.path().join("stat")) {
                Ok(s) => s,
                Err(_) => continue, // thread exited meanwhile
            };
            n += 1;
            // state is the first field after the ")" closing the comm
            let state = stat.rsplit(')').next().unwrap_or("").trim_start().chars().next().unwrap_or('?');
            if state != 'S' {
                all_sleeping = false;
            }
        }
    }
    (n, all_sleeping)
}

fn wait_quiescent(me: u64) -> usize {
    let mut streak = 0;
    let mut last = 0;
    loop {
        let (n, sleeping) = others_state(me);
        if sleeping {
            streak += 1;
            if streak >= 2 && n == last {
                return n;
            }
        } else {
            streak = 0;
        }
        last = n;
        std::thread::sleep(std::time::Duration::from_micros(150));
    }
}

struct RunResult {
    outputs: Vec<u64>,
    pulls_at_output: Vec<usize>,
}

fn one_run(n: u64, threads: usize, drop_after: Option<usize>, seed: u64, policy: u64) -> String {
    {
        let mut g = GATE.lock().unwrap();
        g.arrived.clear();
        g.released.clear();
    }
    PULLS.store(0, Ordering::SeqCst);
    CONSUMER_DONE.store(false, Ordering::SeqCst);
    let me = own_tid();
    let (baseline, _) = others_state(me);
    let consumer = std::thread::spawn(move || {
        let mut res = RunResult { outputs: Vec::new(), pulls_at_output: Vec::new() };
        {
            let pm = parallel_map(fun, Source { next: 0, n }, threads);
            if drop_after != Some(0) {
                for out in pm {
                    res.outputs.push(out);
                    res.pulls_at_output.push(PULLS.load(Ordering::SeqCst));
                    if Some(res.outputs.len()) == drop_after {
                        break;
                    }
                }
            }
            // `pm` (or the for loop's iterator) is dropped here
        }
        CONSUMER_DONE.store(true, Ordering::SeqCst);
        res
    });
    let mut rng = Rng(seed);
    let mut release_order: Vec<u64> = Vec::new();
    let mut deadlock = false;
    let mut max_in_flight = 0usize;
    loop {
        wait_quiescent(me);
        if CONSUMER_DONE.load(Ordering::SeqCst) {
            break;
        }
        let mut g = GATE.lock().unwrap();
        let cands: Vec<u64> = g.arrived.difference(&g.released).cloned().collect();
        if cands.is_empty() {
            drop(g);
            // quiescent, nothing to release, consumer unfinished
            if CONSUMER_DONE.load(Ordering::SeqCst) {
                break;
            }
            deadlock = true;
            break;
        }
        max_in_flight = max_in_flight.max(cands.len());
        let pick = match policy {
            0 => cands[rng.below(cands.len() as u64) as usize], // uniform
            1 => *cands.last().unwrap(),                         // newest first (reverse order)
            2 => cands[0],                                       // oldest first
            _ => {
                // mostly newest, sometimes random
                if rng.below(4) == 0 {
                    cands[rng.below(cands.len() as u64) as usize]
                } else {
                    *cands.last().unwrap()
                }
            }
        };
        g.released.insert(pick);
        release_order.push(pick);
        drop(g);
        GATE_CV.notify_all();
    }
    let mut outputs = Vec::new();
    let mut pulls = Vec::new();
    let mut threads_after = 0usize;
    if !deadlock {
        let res = consumer.join().unwrap();
        outputs = res.outputs;
        pulls = res.pulls_at_output;
        // let exiting worker threads disappear
        for _ in 0 .. 2000 {
            let (now, _) = others_state(me);
            threads_after = now;
            if now <= baseline {
                break;
            }
            std::thread::sleep(std::time::Duration::from_micros(200));
        }
    }
    format!(
        "{{\"n\":{},\"T\":{},\"drop\":{},\"policy\":{},\"seed\":{},\"deadlock\":{},\"outputs\":{:?},\"pulls\":{:?},\"release\":{:?},\"threads_baseline\":{},\"threads_after\":{},\"max_in_flight\":{},\"total_pulls\":{}}}",
        n,
        threads,
        drop_after.map(|x| x as i64).unwrap_or(-1),
        policy,
        seed,
        deadlock,
        outputs,
        pulls,
        release_order,
        baseline,
        threads_after,
        max_in_flight,
        PULLS.load(Ordering::SeqCst)
    )
}

fn main() {
    // usage: rustsim <seed> <runs> [max_n] [max_T]   or   rustsim one <n> <T> <drop|-1> <seed> <policy>
    let args: Vec<String> = std::env::args().collect();
    if args.len() >= 7 && args[1] == "one" {
        let n: u64 = args[2].parse().unwrap();
        let t: usize = args[3].parse().unwrap();
        let d: i64 = args[4].parse().unwrap();
        let seed: u64 = args[5].parse().unwrap();
        let policy: u64 = args[6].parse().unwrap();
        println!("{}", one_run(n, t, if d < 0 { None } else { Some(d as usize) }, seed, policy));
        return;
    }
    let seed: u64 = args.get(1).and_then(|s| s.parse().ok()).unwrap_or(0);
    let runs: u64 = args.get(2).and_then(|s| s.parse().ok()).unwrap_or(100);
    let max_n: u64 = args.get(3).and_then(|s| s.parse().ok()).unwrap_or(12);
    let max_t: u64 = args.get(4).and_then(|s| s.parse().ok()).unwrap_or(7);
    let mut rng = Rng(seed ^ 0xC15C15);
    for _ in 0 .. runs {
        let n = rng.below(max_n + 1);
        let t = 1 + rng.below(max_t) as usize;
        let drop_after = if rng.below(3) == 0 { Some(rng.below(n + 2) as usize) } else { None };
        let policy = rng.below(4);
        let s = rng.next();
        let line = one_run(n, t, drop_after, s, policy);
        println!("{}", line);
        if line.contains("\"deadlock\":true") {
            // worker / consumer threads of the deadlocked run are stuck for good: stop here
            break;
        }
    }
}
