"""Locate the code under test (always /repo's *working tree*, never an
installed copy) and load pieces of it for the simulator."""
import os
import sys

REPO = os.environ.get("VERIF_REPO", "/repo")
SRC = os.path.join(REPO, "src")
LAZY_POOL_PY = os.path.join(SRC, "sedpack", "io", "itertools", "lazy_pool.py")
ITERTOOLS_PY = os.path.join(SRC, "sedpack", "io", "itertools", "itertools.py")


def ensure_src_on_path() -> None:
    if SRC in sys.path:
        sys.path.remove(SRC)
    sys.path.insert(1, SRC)


_SIM_LP = None


def sim_lazy_pool():
    """lazy_pool.py executed with queue/threading/time simulated."""
    global _SIM_LP
    if _SIM_LP is None:
        from simlib import sched
        _SIM_LP = sched.load_module_under_shims(LAZY_POOL_PY,
                                                "verif_sim_lazy_pool")
    return _SIM_LP


VERIF = os.path.dirname(os.path.dirname(os.path.abspath(__file__)))
BUILD = os.environ.get("VERIF_BUILD", os.path.join(VERIF, ".build"))
BUILT_SO = os.path.join(BUILD, "_sedpack_rs.so")
_SEDPACK = None
RUST_SOURCE = "none"


def build_rust() -> None:
    """(Re)build the extension from the working tree (incremental, ~0.1 s
    when nothing changed)."""
    import subprocess
    env = dict(os.environ)
    env["VERIF_REPO"] = REPO
    subprocess.run([os.path.join(VERIF, "tools", "build_rust.sh")], env=env,
                   check=True, timeout=900, capture_output=True)


def _preseed_rust() -> None:
    """Make `from sedpack import _sedpack_rs` resolve to the extension built
    from the working tree (fallback: the one lying in the tree; last resort a
    stub so that non-Rust checks still import)."""
    global RUST_SOURCE
    import glob
    import importlib.machinery
    import importlib.util
    import types
    name = "sedpack._sedpack_rs"
    candidates = [BUILT_SO] + sorted(
        glob.glob(os.path.join(SRC, "sedpack", "_sedpack_rs*.so")))
    for path in candidates:
        if os.path.exists(path):
            try:
                loader = importlib.machinery.ExtensionFileLoader(name, path)
                spec = importlib.util.spec_from_loader(name, loader,
                                                       origin=path)
                mod = importlib.util.module_from_spec(spec)
                loader.exec_module(mod)
                sys.modules[name] = mod
                RUST_SOURCE = path
                return
            except ImportError:
                continue
    stub = types.ModuleType(name)

    class RustIter:  # pylint: disable=too-few-public-methods
        @staticmethod
        def supported_compressions():
            return []

    stub.RustIter = RustIter
    sys.modules[name] = stub
    RUST_SOURCE = "stub"


def sedpack_io():
    """Import sedpack.io from the working tree (once per process)."""
    global _SEDPACK
    if _SEDPACK is None:
        os.environ.setdefault("TF_CPP_MIN_LOG_LEVEL", "3")
        ensure_src_on_path()
        _preseed_rust()
        import sedpack
        import sedpack.io  # pylint: disable=redefined-outer-name
        assert os.path.realpath(sedpack.__file__).startswith(
            os.path.realpath(SRC)), sedpack.__file__
        import logging
        logging.getLogger("sedpack.io.Dataset").setLevel(logging.ERROR)
        _SEDPACK = sedpack
    return _SEDPACK.io

RUSTSIM = os.path.join(BUILD, "rustsim")


def build_rustsim() -> None:
    import subprocess
    env = dict(os.environ)
    env["VERIF_REPO"] = REPO
    subprocess.run([os.path.join(VERIF, "tools", "build_rustsim.sh")], env=env,
                   check=True, timeout=1200, capture_output=True)


_SIM_DS = None


def sim_dataset_cls():
    """`sedpack.io.Dataset` whose iteration mixin is dataset_iteration.py
    re-executed with queue / threading / time / concurrent.futures simulated
    and LazyPool taken from the simulated lazy_pool module: whatever that
    file does with threads - in the pinned form or after a change - runs
    under the scheduler."""
    global _SIM_DS
    if _SIM_DS is None:
        sedpack_io()
        from simlib import sched, simexec
        di_path = os.path.join(SRC, "sedpack", "io", "dataset_iteration.py")
        ds_path = os.path.join(SRC, "sedpack", "io", "dataset.py")
        di = sched.load_module_under_shims(
            di_path, "verif_sim_dataset_iteration",
            {"concurrent.futures": simexec.make_futures_module()})
        di.LazyPool = sim_lazy_pool().LazyPool
        real = sys.modules["sedpack.io.dataset_iteration"]
        sys.modules["sedpack.io.dataset_iteration"] = di
        try:
            import importlib.util
            spec = importlib.util.spec_from_file_location("verif_sim_dataset",
                                                          ds_path)
            mod = importlib.util.module_from_spec(spec)
            spec.loader.exec_module(mod)
        finally:
            sys.modules["sedpack.io.dataset_iteration"] = real
        _SIM_DS = mod.Dataset
    return _SIM_DS
