"""Locate the code under test (always /repo's *working tree*, never an
installed copy) and load pieces of it for the simulator."""
import os
import sys

REPO = os.environ.get("VERIF_REPO", "/repo")
SRC = os.path.join(REPO, "src")
LAZY_POOL_PY = os.path.join(SRC, "sedpack", "io", "itertools", "lazy_pool.py")
ITERTOOLS_PY = os.path.join(SRC, "sedpack", "io", "itertools", "itertools.py")


def ensure_src_on_path() -> None:
    if SRC in sys.path:
        sys.path.remove(SRC)
    sys.path.insert(1, SRC)


_SIM_LP = None


def sim_lazy_pool():
    """lazy_pool.py executed with queue/threading/time simulated."""
    global _SIM_LP
    if _SIM_LP is None:
        from simlib import sched
        _SIM_LP = sched.load_module_under_shims(LAZY_POOL_PY,
                                                "verif_sim_lazy_pool")
    return _SIM_LP
