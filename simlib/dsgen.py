"""Seeded dataset / history generator, reference model and executor (E-sess).

Everything a history does to sedpack goes through the public API
(`Dataset.create`, `Dataset(path)`, `filler()`, `DatasetFiller(...)`,
`write_multiprocessing`, iteration interfaces, `check`).
"""
from __future__ import annotations

import collections
import contextlib
import copy
import json
import os
import random
import uuid as _uuid
from pathlib import Path

import numpy as np

from simlib import bootstrap

FORMATS = {
    "fb": ["", "LZ4", "GZIP", "ZLIB", "BZ2", "LZMA", "ZSTD"],
    "npz": ["", "ZIP"],
    "tfrec": ["", "GZIP", "ZLIB"],
}
RUST_COMPRESSIONS = ["", "LZ4", "GZIP", "ZLIB"]
PAYLOADS = {
    "fb": [("float32", (3,)), ("uint8", (2, 2)), ("int16", (2,)),
           ("float16", (2,)), ("float64", ()), ("uint64", (1,)),
           ("int8", (3,)), ("uint32", (2, 1))],
    "npz": [("float32", (3,)), ("uint8", (2, 2)), ("int16", (2,)),
            ("float16", (2,)), ("float64", ()), ("uint64", (1,))],
    "tfrec": [("float32", (3,)), ("int32", (2,)), ("uint8", (2, 2)),
              ("float16", (2,)), ("int64", ())],
}
HASHES = ["md5", "sha1", "sha224", "sha256", "sha384", "sha512", "sha3_224",
          "sha3_256", "sha3_384", "sha3_512", "xxh32", "xxh64", "xxh128"]
SPLITS = ["train", "test", "holdout"]
META_VALUES = [{"k": "a"}, {"k": "b"}, {"k": "a", "n": 1}, {"n": [1, 2]},
               {"k": "c", "deep": {"x": 1}}]
SUBDIRS = ["a", "b", "a/c", "b/e", "b/e/f", "d"]
ABSENT = object()


# ---------------------------------------------------------------- generation
def gen_structure(rng: random.Random, fmt: str | None = None,
                  formats=("fb", "fb", "npz", "npz", "tfrec"),
                  max_payload: int = 2, hashes=None,
                  compression=None) -> dict:
    fmt = fmt or rng.choice(list(formats))
    comp = compression if compression is not None else rng.choice(
        FORMATS[fmt])
    attrs = [{"name": "id", "dtype": "int64", "shape": []}]
    for i in range(rng.randrange(0, max_payload + 1)):
        dt, sh = rng.choice(PAYLOADS[fmt])
        attrs.append({"name": f"p{i}", "dtype": dt, "shape": list(sh)})
    if rng.random() < 0.3:
        rng.shuffle(attrs)
    if hashes is None:
        k = rng.choice([0, 1, 1, 1, 2, 3])
        hashes = [rng.choice(HASHES) for _ in range(k)]
    return {"fmt": fmt, "compression": comp,
            "eps": rng.choice([1, 2, 2, 3, 3, 4, 5]),
            "hashes": list(hashes), "attrs": attrs}


BAD_KINDS = ("shape", "rank", "unsafe_dtype", "foreign_dtype", "container",
             "missing", "extra", "rank_same_size")


def gen_writes(rng: random.Random, n: int, ids, splits, meta_mode: str,
               bad_rate: float = 0.0, bad_kinds=BAD_KINDS) -> list:
    out = []
    for _ in range(n):
        w = {"split": rng.choice(splits), "id": next(ids)}
        if bad_rate and rng.random() < bad_rate:
            w["bad"] = rng.choice(list(bad_kinds))
            w["bad_attr"] = rng.randrange(0, 8)
        if meta_mode == "none":
            pass
        elif meta_mode == "some":
            r = rng.random()
            if r < 0.35:
                pass
            elif r < 0.45:
                w["meta"] = ["empty"]
            else:
                w["meta"] = ["val", rng.randrange(3)]
        elif meta_mode == "runs":
            # runs of equal values, sometimes through one mutated object
            if out and rng.random() < 0.6 and "meta" in out[-1]:
                prev = out[-1]["meta"]
                w["meta"] = [prev[0], prev[1]] if prev[0] != "empty" else [
                    "val", 0]
                if rng.random() < 0.3 and prev[0] != "empty":
                    w["meta"] = [rng.choice(["reord", "same", "val"]),
                                 prev[1]]
            else:
                w["meta"] = [rng.choice(["val", "val", "same", "mut", "nest"]),
                             rng.randrange(len(META_VALUES))]
            if rng.random() < 0.15:
                w.pop("meta", None)
        out.append(w)
    return out


def gen_session(rng: random.Random, ids, eps: int, kinds, splits,
                meta_modes=("none", "none", "some", "runs"),
                max_writers: int = 4, subdirs=SUBDIRS, bad_rate: float = 0.0,
                bad_kinds=BAD_KINDS) -> dict:
    kind = rng.choice(list(kinds))
    meta_mode = rng.choice(list(meta_modes))
    anchors = [0, 1, eps - 1, eps, eps + 1, 2 * eps, 2 * eps + 1, 3 * eps + 1]

    def count():
        return max(0, rng.choice(anchors + [rng.randrange(0, 3 * eps + 2)]))

    ses = {"kind": kind, "reopen": rng.random() < 0.5}
    if kind == "root":
        ses["writes"] = gen_writes(rng, count(), ids, splits, meta_mode,
                                   bad_rate, bad_kinds)
    elif kind == "sub":
        ses["rel"] = rng.choice(list(subdirs))
        ses["writes"] = gen_writes(rng, count(), ids, splits, meta_mode,
                                   bad_rate, bad_kinds)
    elif kind == "multi":
        nw = rng.randrange(1, max_writers + 1)
        ses["writers"] = [
            gen_writes(rng, 0 if rng.random() < 0.15 else count(), ids,
                       splits, meta_mode) for _ in range(nw)
        ]
        ses["single_process"] = rng.random() < 0.25
        ses["pool_seed"] = rng.getrandbits(32)
    return ses


def gen_history(rng: random.Random, n_sessions=None, fmt=None,
                kinds=("root", "root", "sub", "sub", "multi"),
                formats=("fb", "fb", "npz", "npz", "tfrec"),
                meta_modes=("none", "none", "some", "runs"),
                max_payload: int = 2, hashes=None, splits=None,
                subdirs=SUBDIRS, max_writers: int = 4, bad_rate: float = 0.0,
                bad_kinds=BAD_KINDS) -> dict:
    st = gen_structure(rng, fmt, formats, max_payload, hashes)
    if splits is None:
        splits = rng.sample(SPLITS, rng.randrange(1, 4))
    ns = n_sessions if n_sessions is not None else rng.randrange(1, 5)
    counter = iter(range(1, 10**9))
    sessions = [gen_session(rng, counter, st["eps"], kinds, splits,
                            meta_modes, max_writers, subdirs, bad_rate,
                            bad_kinds)
                for _ in range(ns)]
    return {"structure": st, "splits": splits, "sessions": sessions,
            "name_seed": rng.getrandbits(48),
            "clock": rng.choice(["monotone", "frozen", "backwards"]),
            # the caller's script seeds the global `random` with the same
            # value at the start of every session (every run of an ML script)
            "reseed": rng.getrandbits(32) if rng.random() < 0.3 else None}


# ------------------------------------------------------------------- values
def values_for(attrs: list, ident: int, fmt: str) -> dict:
    """Deterministic example for an id: the id attribute plus payloads of
    (format-safe) random bit patterns."""
    r = random.Random(ident * 1000003 + 17)
    vals = {}
    for a in attrs:
        if a["dtype"] in ("bytes", "str"):
            # variable-size attribute: printable, NUL-free (codec fidelity of
            # odd byte strings is C01's business, not ours)
            text = "".join(r.choice("abcdefghijklmnopqrstuvwxyz0123456789")
                           for _ in range(r.randrange(1, 9)))
            vals[a["name"]] = text if a["dtype"] == "str" else text.encode()
            continue
        dt = np.dtype(a["dtype"])
        shape = tuple(a["shape"])
        if a["name"] == "id":
            vals["id"] = np.array(ident, dtype=dt)
            continue
        n = int(np.prod(shape)) if shape else 1
        if fmt == "tfrec":
            if dt.kind == "f":
                arr = np.array([r.randrange(-2000, 2000) / 8.0
                                for _ in range(n)], dtype=dt)
            else:
                info = np.iinfo(dt)
                arr = np.array([r.randrange(info.min, info.max + 1)
                                for _ in range(n)], dtype=dt)
        else:
            arr = np.frombuffer(r.randbytes(n * dt.itemsize), dtype=dt).copy()
            if dt.kind == "f":
                arr[~np.isfinite(arr)] = 1.5
        vals[a["name"]] = arr.reshape(shape)
    return vals


def canon(example, attrs: list):
    """(id, payload bytes...) after conversion to the declared dtype; None
    members flag a shape / type deviation."""
    ident = None
    out = []
    for a in attrs:
        v = example[a["name"]]
        if a["dtype"] in ("bytes", "str"):
            if isinstance(v, np.ndarray) and v.shape == ():
                v = v.item()
            if isinstance(v, (bytes, np.bytes_)):
                out.append(bytes(v))
            elif isinstance(v, str):
                out.append(v.encode("utf-8"))
            else:
                out.append(("type", type(v).__name__))
            continue
        arr = np.asarray(v)
        dt = np.dtype(a["dtype"])
        if arr.dtype != dt:
            try:
                arr = arr.astype(dt)
            except (ValueError, TypeError):
                # an accepted odd value (foreign dtype): not comparable
                out.append(("unconvertible", str(arr.dtype)))
                continue
        if tuple(arr.shape) != tuple(a["shape"]):
            out.append(("shape", tuple(arr.shape)))
            continue
        if a["name"] == "id":
            ident = int(arr)
        out.append(arr.tobytes())
    return ident, tuple(out)


def expected_canon(attrs: list, ident: int, fmt: str):
    return canon(values_for(attrs, ident, fmt), attrs)


def resolve_meta(spec, shared: dict):
    if spec is None:
        return ABSENT, None
    kind = spec[0]
    if kind == "empty":
        return {}, {}
    if kind == "big":
        # a long, possibly non-ASCII text: the shard list holding it is
        # larger than one 128 KiB hashing block, in bytes more than in chars
        val = {"k": "big", "t": chr(spec[2]) * spec[1]}
        return dict(val), dict(val)
    val = META_VALUES[spec[1] % len(META_VALUES)]
    if kind == "val":
        return copy.deepcopy(val), copy.deepcopy(val)
    if kind == "same":
        return json.loads(json.dumps(val)), copy.deepcopy(val)
    if kind == "reord":
        # an equal dict with the opposite key insertion order
        return dict(reversed(list(copy.deepcopy(val).items()))), \
            copy.deepcopy(val)
    if kind == "nreord":
        # an equal value whose dicts at every depth have the opposite key
        # insertion order
        def rev(v):
            if isinstance(v, dict):
                return {k: rev(x) for k, x in reversed(list(v.items()))}
            if isinstance(v, list):
                return [rev(x) for x in v]
            return v
        return rev(copy.deepcopy(val)), copy.deepcopy(val)
    if kind == "nest":
        # one object the caller keeps: only values *inside* its nested dict
        # and list are updated in place between writes
        if shared.get("k") != "nest":
            shared.clear()
            shared.update({"k": "nest", "deep": {}, "n": []})
        shared["deep"]["x"] = spec[1]
        shared["n"][:] = [spec[1]]
        return shared, {"k": "nest", "deep": {"x": spec[1]}, "n": [spec[1]]}
    if kind == "mut":
        shared.clear()
        shared.update(copy.deepcopy(val))
        return shared, copy.deepcopy(val)
    raise ValueError(spec)


def stored_rows(root: str, path: str, st: dict, decoded: int) -> int:
    """Number of examples a shard file stores: for npz the longest
    per-attribute column (a rejected write must leave no row in any column),
    otherwise what decodes."""
    if st["fmt"] != "npz":
        return decoded
    try:
        with np.load(os.path.join(root, path), allow_pickle=False) as z:
            return max([decoded] + [len(z[k]) for k in z.files])
    except Exception:  # pylint: disable=broad-except
        return decoded


def bad_values(attrs: list, w: dict, fmt: str) -> dict:
    """A deliberately wrong example (write-time validation, C18/C04)."""
    vals = values_for(attrs, w["id"], fmt)
    a = attrs[w.get("bad_attr", 0) % len(attrs)]
    name = a["name"]
    shape = tuple(a["shape"])
    kind = w["bad"]
    if kind == "extra_npz_tfrec":
        # a surplus key next to a complete, valid example
        kind = "extra" if fmt in ("npz", "tfrec") else "shape"
    if kind == "misspelt":
        # right number of keys, one of them under a wrong name
        vals[name + "_"] = vals.pop(name)
        return vals
    if a["dtype"] in ("bytes", "str"):
        if kind == "missing":
            del vals[name]
        elif kind == "extra":
            vals["surplus_attribute"] = np.zeros((1,), dtype=np.int8)
        elif kind in ("foreign_dtype", "unsafe_dtype", "unsafe_dtype_fb"):
            vals[name] = np.arange(3, dtype=np.float32)
        elif kind == "container":
            vals[name] = [b"a", b"bc"]
        else:
            vals[name] = 12345
        return vals
    dt = np.dtype(a["dtype"])
    if kind == "unsafe_dtype_fb":
        kind = "unsafe_dtype" if fmt == "fb" else "shape"
    if kind == "extra_tfrec":
        kind = "extra" if fmt == "tfrec" else "shape"
    good = np.asarray(vals[name])
    if kind == "shape":
        vals[name] = np.zeros(tuple(d + 1 for d in shape) or (2,), dtype=dt)
    elif kind == "rank":
        vals[name] = np.zeros(shape + (2,), dtype=dt)
    elif kind == "rank_same_size":
        vals[name] = good.reshape((1,) + shape)
    elif kind == "unsafe_dtype":
        wider = {"f": np.complex128 if dt == np.float64 else np.float64,
                 "i": np.float64, "u": np.float64}[dt.kind]
        vals[name] = (good.astype(wider) + wider(0.5)).reshape(shape)
    elif kind == "foreign_dtype":
        vals[name] = np.full(shape, "x", dtype="U3")
    elif kind == "container":
        vals[name] = [[1, 2], [3]] if shape else {"not": "an array"}
    elif kind == "missing":
        del vals[name]
    elif kind == "extra":
        vals["surplus_attribute"] = np.zeros((1,), dtype=np.int8)
    return vals


# ------------------------------------------------------------ seams (names)
class SeededClock:
    """Stands in for the `time` module inside sedpack.io.utils."""

    def __init__(self, rng: random.Random, mode: str) -> None:
        self._rng = rng
        self._mode = mode
        self._t = 1.7e9

    def time(self) -> float:
        if self._mode == "monotone":
            self._t += self._rng.random()
        elif self._mode == "backwards":
            self._t += self._rng.random() - 0.6
        return self._t

    def __getattr__(self, name):
        import time as _t
        return getattr(_t, name)


@contextlib.contextmanager
def seams(name_seed: int, clock_mode: str = "monotone"):
    """uuid4, sedpack's temp-name clock and the global `random` module all
    derive from the run seed."""
    sio = bootstrap.sedpack_io()
    import sedpack.io.utils as su
    rng = random.Random(name_seed)
    real_uuid4 = _uuid.uuid4
    # (a restructured utils.py may not import `time` at all)
    has_time = hasattr(su, "time")
    real_time = su.time if has_time else None
    state = random.getstate()

    def uuid4():
        return _uuid.UUID(int=rng.getrandbits(128), version=4)

    _uuid.uuid4 = uuid4
    if has_time:
        su.time = SeededClock(random.Random(name_seed ^ 0x5EED), clock_mode)
    random.seed(name_seed)
    # a tuning knob the code may consult: the number of CPUs is a seeded
    # choice per run (1..4 or 16), so that behaviour which depends on
    # "more work items than CPUs" is reachable with a handful of items
    real_cpu_count = os.cpu_count
    cpus = random.Random(name_seed ^ 0xC9).choice([1, 2, 3, 4, 16])
    os.cpu_count = lambda: cpus
    # another one: where the process-wide temporary directory lives.  The
    # datasets are on /dev/shm; in half of the runs $TMPDIR is on another
    # file system (as /tmp usually is relative to a data disk), so that a
    # rename from there cannot be atomic
    import tempfile
    real_tempdir = tempfile.tempdir
    if (name_seed >> 7) & 1:
        try:
            tempfile.tempdir = other_fs_tmpdir()
        except OSError:
            pass  # (no second file system to be had: knob stays off)
    try:
        yield sio
    finally:
        tempfile.tempdir = real_tempdir
        os.cpu_count = real_cpu_count
        _uuid.uuid4 = real_uuid4
        if has_time:
            su.time = real_time
        random.setstate(state)


_OTHER_FS_TMP: list = []


def other_fs_tmpdir() -> str:
    """A private temporary directory on a file system other than the one the
    scratch datasets live on (removed when the process ends)."""
    if not _OTHER_FS_TMP or not os.path.isdir(_OTHER_FS_TMP[0]):
        # (created and removed by simlib/main.py for the whole check)
        path = os.environ.get("VERIF_OTHERFS_TMP")
        if path == "-":
            raise OSError("no other file system available")
        if not path:
            import atexit
            import shutil
            path = f"/var/tmp/verif-otherfs-{os.getpid()}"
            pid = os.getpid()

            def cleanup() -> None:
                if os.getpid() == pid:
                    shutil.rmtree(path, ignore_errors=True)

            atexit.register(cleanup)
        os.makedirs(path, exist_ok=True)
        _OTHER_FS_TMP[:] = [path]
    return _OTHER_FS_TMP[0]


# ------------------------------------------------------------------ the model
Rec = collections.namedtuple("Rec", "id session writer meta seq")


class Model:
    """Reference model: per split, the examples committed so far, in write
    order within (session, writer)."""

    def __init__(self, structure: dict) -> None:
        self.structure = structure
        self.committed: dict[str, list[Rec]] = collections.defaultdict(list)
        self.pending: dict[str, list[Rec]] = collections.defaultdict(list)
        # writes the format rejected (the caller caught the error): they hold
        # no example but the caller did pass their metadata
        self.rejected: dict[str, list[Rec]] = collections.defaultdict(list)
        self.seq = 0

    def reject(self, split: str, ident: int, session: int, writer: int,
               meta) -> None:
        self.seq += 1
        self.rejected[split].append(Rec(ident, session, writer, meta,
                                        self.seq))

    def write(self, split: str, ident: int, session: int, writer: int,
              meta) -> None:
        self.seq += 1
        self.pending[split].append(Rec(ident, session, writer, meta, self.seq))

    def commit(self) -> None:
        for split, recs in self.pending.items():
            self.committed[split].extend(recs)
        self.pending = collections.defaultdict(list)

    def abort(self) -> None:
        self.pending = collections.defaultdict(list)

    def ids(self, split: str) -> list[int]:
        return [r.id for r in self.committed.get(split, [])]

    def splits_with_data(self) -> list[str]:
        return [s for s, r in self.committed.items() if r]


# ---------------------------------------------------------------- the runner
def feed_writer(dataset_filler, writes, attrs, fmt):
    """Module-level (picklable) writer for write_multiprocessing."""
    shared: dict = {}
    n = 0
    with dataset_filler as filler:
        for w in writes:
            meta, _ = resolve_meta(w.get("meta"), shared)
            kw = {} if meta is ABSENT else {"custom_metadata": meta}
            filler.write_example(values=values_for(attrs, w["id"], fmt),
                                 split=w["split"], **kw)
            n += 1
    return ("wrote", n, [w["id"] for w in writes][:1])


def make_structure(sio, st: dict):
    from sedpack.io.metadata import Attribute, DatasetStructure
    return DatasetStructure(
        saved_data_description=[
            Attribute(name=a["name"], dtype=a["dtype"],
                      shape=tuple(a["shape"]),
                      custom_metadata=copy.deepcopy(
                          a.get("custom_metadata", {})))
            for a in st["attrs"]
        ],
        compression=st["compression"],
        examples_per_shard=st["eps"],
        shard_file_type=st["fmt"],
        hash_checksum_algorithms=tuple(st["hashes"]),
    )


class HistoryRunner:
    """Executes a generated history against real sedpack code."""

    def __init__(self, hist: dict, root: str, pool_factory=None,
                 on_write=None, bad_values=None) -> None:
        self.hist = hist
        self.st = hist["structure"]
        self.root = root
        self.sio = bootstrap.sedpack_io()
        self.model = Model(self.st)
        self.ds = None
        self.pool_factory = pool_factory
        self.on_write = on_write
        self.bad_values = bad_values or globals()["bad_values"]
        self.rejected: list = []
        self.rejected_good: list = []
        self.tolerate_rejected_good = False
        self.real_pool = False  # multi-writer sessions on real processes
        self.accepted_bad: list = []
        self.session_no = -1
        self.multi_results: list = []

    def create(self, metadata=None) -> None:
        from sedpack.io.metadata import Metadata
        self.ds = self.sio.Dataset.create(
            path=self.root,
            metadata=metadata or Metadata(description="verif"),
            dataset_structure=make_structure(self.sio, self.st))

    def reopen(self) -> None:
        self.ds = self.sio.Dataset(self.root)

    def _write_loop(self, filler, writes, session: int, writer: int) -> None:
        shared: dict = {}
        attrs, fmt = self.st["attrs"], self.st["fmt"]
        for w in writes:
            meta, snap = resolve_meta(w.get("meta"), shared)
            kw = {} if meta is ABSENT else {"custom_metadata": meta}
            if w.get("bad"):
                vals = self.bad_values(attrs, w, fmt)
                try:
                    filler.write_example(values=vals, split=w["split"], **kw)
                except Exception as e:  # pylint: disable=broad-except
                    self.rejected.append((w["id"], type(e).__name__))
                    self.model.reject(w["split"], w["id"], session, writer,
                                      snap)
                    continue
                self.accepted_bad.append(w["id"])
                self.model.write(w["split"], w["id"], session, writer, snap)
                if self.on_write:
                    self.on_write(w)
                continue
            try:
                filler.write_example(values=values_for(attrs, w["id"], fmt),
                                     split=w["split"], **kw)
            except Exception as e:  # pylint: disable=broad-except
                if not self.tolerate_rejected_good:
                    raise
                # (C18: a declaration the format does not support may make
                # it reject every write; that is a legitimate rejection)
                self.rejected_good.append((w["id"], type(e).__name__))
                continue
            self.model.write(w["split"], w["id"], session, writer, snap)
            if self.on_write:
                self.on_write(w)

    def run_session(self, k: int) -> None:
        """Runs session k to completion (raises whatever sedpack raises)."""
        ses = self.hist["sessions"][k]
        self.session_no = k
        if self.hist.get("reseed") is not None:
            random.seed(self.hist["reseed"])
        if ses.get("reopen") or self.ds is None:
            self.reopen()
        ds = self.ds
        kind = ses["kind"]
        if kind == "root":
            with ds.filler() as filler:
                self._write_loop(filler, ses["writes"], k, 0)
        elif kind == "sub":
            from sedpack.io.dataset_filler import DatasetFiller
            with DatasetFiller(ds, relative_path_from_split=Path(
                    ses["rel"])) as filler:
                self._write_loop(filler, ses["writes"], k, 0)
        elif kind == "multi":
            import sedpack.io.dataset_writing as dw
            # positional arguments only, or (seeded) part of them as keyword
            # arguments through `custom_kwarguments`
            use_kw = bool(ses.get("pool_seed", 0) & 1)
            if use_kw:
                args = [[w] for w in ses["writers"]]
                kwargs = [{"attrs": self.st["attrs"], "fmt": self.st["fmt"]}
                          for _ in ses["writers"]]
            else:
                args = [[w, self.st["attrs"], self.st["fmt"]]
                        for w in ses["writers"]]
                kwargs = None
            shared: dict = {}
            for wi, writes in enumerate(ses["writers"]):
                for w in writes:
                    _, snap = resolve_meta(w.get("meta"), shared)
                    self.model.write(w["split"], w["id"], k, wi, snap)
            saved_pool = dw.Pool
            if self.pool_factory is not None and not ses.get(
                    "single_process"):
                dw.Pool = self.pool_factory(ses)
            try:
                res = ds.write_multiprocessing(
                    feed_writer=feed_writer,
                    custom_arguments=args,
                    custom_kwarguments=kwargs,
                    consistency_check=False,
                    single_process=(bool(ses.get("single_process")) or
                                    self.pool_factory is None) and
                    not self.real_pool,
                )
            finally:
                dw.Pool = saved_pool
            self.multi_results.append(res)
        else:
            raise ValueError(kind)
        self.model.commit()


# ------------------------------------------------------------------- reading
def read_sync(ds, split: str, attrs: list, **kw) -> list:
    kw.setdefault("repeat", False)
    kw.setdefault("shuffle", 0)
    return [canon(e, attrs) for e in ds.as_numpy_iterator(split=split, **kw)]


def check_examples(got: list, attrs: list, fmt: str):
    """Every yielded example must be byte-exactly the example of its id.
    Returns an error string or None."""
    for ident, payload in got:
        if ident is None:
            return "example without decodable id"
        exp = expected_canon(attrs, ident, fmt)
        if (ident, payload) != exp:
            return f"example id={ident} differs from what was written"
    return None


# ------------------------------------------------------- independent walker
def walk_tree(root: str):
    """Walk the metadata tree with plain json, starting from
    dataset_info.json.  Returns (info_json, lists, shards) where lists maps
    the relative path of each shards_list.json to its parsed JSON plus
    bookkeeping and shards is a list of dicts (path, count, meta, list)."""
    with open(os.path.join(root, "dataset_info.json"), encoding="utf-8") as f:
        info = json.load(f)
    lists = {}
    shards = []

    def visit(rel: str, recorded: dict, split: str):
        with open(os.path.join(root, rel), encoding="utf-8") as f:
            doc = json.load(f)
        lists[rel] = {"doc": doc, "recorded": recorded, "split": split}
        for sh in doc.get("shard_files", []):
            fi = sh["file_infos"][0]
            shards.append({"path": fi["file_path"],
                           "hashes": fi.get("hash_checksums", []),
                           "count": sh.get("number_of_examples", 0),
                           "meta": sh.get("custom_metadata", {}),
                           "list": rel, "split": split})
        for ch in doc.get("children_shard_lists", []):
            visit(ch["shard_list_info_file"]["file_path"], ch, split)

    for split, sli in info.get("splits", {}).items():
        visit(sli["shard_list_info_file"]["file_path"], sli, split)
    return info, lists, shards


def decode_shard(root: str, rel: str, st: dict) -> list:
    """Decode one shard file with the format's own reader."""
    ds_struct = make_structure(bootstrap.sedpack_io(), st)
    from sedpack.io.flatbuffer import IterateShardFlatBuffer
    from sedpack.io.npz import IterateShardNP
    from sedpack.io.tfrec import IterateShardTFRec
    cls = {"fb": IterateShardFlatBuffer, "npz": IterateShardNP,
           "tfrec": IterateShardTFRec}[st["fmt"]]
    if st["fmt"] == "tfrec":
        it = cls(dataset_structure=ds_struct, process_record=None,
                 num_parallel_calls=1)
    else:
        it = cls(dataset_structure=ds_struct, process_record=None)
    return [canon(e, st["attrs"])
            for e in it.iterate_shard(Path(root) / rel)]
