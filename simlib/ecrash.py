"""E-crash: E-sess plus the crash dimension.

After a prefix of committed sessions one *crashing session* runs with the
crash oracle evaluated at every file-system effect boundary: the directory as
it is at that instant is exactly what survives a process kill (OS up), and
exactly what a second process sees.  A concurrent reader task (its own file
reads are yield points) looks at the directory while the writer is active.
"""
from __future__ import annotations

import collections
import hashlib
import os
import random
import shutil

import xxhash

from simlib import bootstrap, dsgen, esess, fslayer, sched as S, simexec
from simlib.esess import Violation

META_NAMES = ("dataset_info.json", "shards_list.json")


def file_digest(path: str, algo: str) -> str:
    with fslayer.real_open(path, "rb") as f:
        data = f.read()
    if algo.startswith("xxh"):
        return getattr(xxhash, algo)(data).hexdigest()
    return hashlib.new(algo, data).hexdigest()


class VersionTracker:
    """Which complete contents were ever atomically installed at each
    metadata path (from the effect log alone)."""

    def __init__(self, scratch: str) -> None:
        self.scratch = scratch
        self.complete: dict[str, str] = {}
        self.versions: dict[str, set] = collections.defaultdict(set)
        self.open_for_write: set[str] = set()

    def _sha(self, rel: str) -> str:
        with fslayer.real_open(os.path.join(self.scratch, rel), "rb") as f:
            return hashlib.sha1(f.read()).hexdigest()

    def hook(self, ev) -> None:
        _, _, kind, rel, detail = ev
        if kind == "open_w":
            self.open_for_write.add(rel)
            self.complete.pop(rel, None)
        elif kind == "close_w":
            self.open_for_write.discard(rel)
            try:
                self.complete[rel] = self._sha(rel)
            except OSError:
                pass
        elif kind == "replace":
            src = detail
            if src in self.complete and src not in self.open_for_write:
                self.versions[rel].add(self.complete.pop(src))
            else:
                self.versions[rel].add("INCOMPLETE-SOURCE")
            if src in self.open_for_write:
                # the still-open handle now writes into the target
                self.open_for_write.discard(src)
                self.open_for_write.add(rel)


def crash_oracle(hr: dsgen.HistoryRunner, tracker: VersionTracker, lower: dict,
                 upper: dict, stats, where: str) -> None:
    root, st = hr.root, hr.st
    scratch = tracker.scratch
    # 1. metadata files: old or new complete version, never partial
    shape = collections.Counter()
    for dirpath, _, filenames in os.walk(root):
        depth = os.path.relpath(dirpath, root).count(os.sep) + (
            0 if dirpath == root else 1)
        for name in filenames:
            kind = ("tmp" if name.startswith("update_") else
                    name if name in META_NAMES else
                    os.path.splitext(name)[1])
            shape[(depth, kind)] += 1
            if name in META_NAMES:
                full = os.path.join(dirpath, name)
                rel = os.path.relpath(full, scratch)
                with fslayer.real_open(full, "rb") as f:
                    sha = hashlib.sha1(f.read()).hexdigest()
                if sha not in tracker.versions.get(rel, ()):
                    raise Violation(
                        "C06", "metadata_file_not_a_complete_version",
                        f"{where}: {os.path.relpath(full, root)} is neither "
                        f"its old nor its new complete version",
                        key={"file": name})
    stats.setdefault("_states", set()).add(hash(tuple(sorted(shape.items()))))
    if not os.path.exists(os.path.join(root, "dataset_info.json")):
        return
    # 2. the dataset opens; reachable shards exist, complete and match
    try:
        ds = hr.sio.Dataset(root)
        info, lists, shards = dsgen.walk_tree(root)
    except Exception as e:  # pylint: disable=broad-except
        raise Violation("C06", "dataset_does_not_open",
                        f"{where}: {type(e).__name__}: {str(e)[:200]}") from e
    for sh in shards:
        full = os.path.join(root, sh["path"])
        if not os.path.isfile(full):
            raise Violation("C06", "reachable_shard_missing",
                            f"{where}: {sh['path']}")
        if st["hashes"]:
            # (algorithms are configured: a reachable shard listed without
            # its checksums does not "match its recorded checksums" either)
            real = [file_digest(full, a) for a in st["hashes"]]
            if real != list(sh["hashes"]):
                raise Violation("C06", "reachable_shard_checksum_mismatch",
                                f"{where}: {sh['path']}" +
                                ("" if sh["hashes"] else
                                 " is listed without checksums"))
    # 3. iteration: whole examples, only written ones, nothing committed lost
    for split in set(info.get("splits", {})) | set(lower):
        try:
            got = dsgen.read_sync(ds, split, st["attrs"]) if split in info.get(
                "splits", {}) else []
        except ValueError as e:
            if "list of shards is empty" not in str(e):
                raise Violation(
                    "C06", "iteration_fails_after_crash",
                    f"{where}: split {split}: {type(e).__name__}: "
                    f"{str(e)[:200]}") from e
            got = []  # a listed split without shards is an empty pass
        except Exception as e:  # pylint: disable=broad-except
            raise Violation(
                "C06", "iteration_fails_after_crash",
                f"{where}: split {split}: {type(e).__name__}: "
                f"{str(e)[:200]}") from e
        err = dsgen.check_examples(got, st["attrs"], st["fmt"])
        if err:
            raise Violation("C06", "torn_or_foreign_example",
                            f"{where}: {split}: {err}")
        seen = collections.Counter(i for i, _ in got)
        lo = collections.Counter(lower.get(split, ()))
        hi = collections.Counter(upper.get(split, ()))
        if lo - seen:
            raise Violation(
                "C06", "committed_examples_lost",
                f"{where}: split {split} lost {sorted((lo - seen).elements())[:8]}")
        if seen - hi:
            raise Violation(
                "C06", "examples_never_written_or_duplicated",
                f"{where}: split {split} extra "
                f"{sorted((seen - hi).elements())[:8]}")
    stats["crash_instants_evaluated"] += 1


class TFWriterSeam:
    """Adds effect boundaries around TensorFlow's TFRecordWriter calls (its
    file I/O happens in C++ and cannot be chunked)."""

    def __init__(self, fs: fslayer.FS) -> None:
        self.fs = fs

    def __enter__(self):
        import tensorflow as tf
        self.tf = tf
        self.saved = tf.io.TFRecordWriter
        fs = self.fs
        real = self.saved

        class Writer:  # pylint: disable=too-few-public-methods

            def __init__(self, path, options=None):
                self._path = path
                self._w = real(path, options)
                fs.effect("tf_open", path, 0)

            def write(self, record):
                if fs.dead:
                    raise fslayer.SimCrash()
                self._w.write(record)
                fs.effect("tf_write", self._path, len(record))

            def flush(self):
                if fs.dead:
                    raise fslayer.SimCrash()
                self._w.flush()
                fs.effect("tf_flush", self._path, 0)

            def close(self):
                if fs.dead:
                    raise fslayer.SimCrash()
                self._w.close()
                fs.effect("tf_close", self._path, 0)

        tf.io.TFRecordWriter = Writer
        return self

    def __exit__(self, *exc):
        self.tf.io.TFRecordWriter = self.saved
        return False


def run_crash_case(case: dict) -> dict:
    hist = case["hist"]
    st = hist["structure"]
    stats = collections.Counter()
    probes = collections.Counter()
    out = {"ok": True, "vclass": None, "detail": "", "key": {}}
    scratch = fslayer.new_scratch("crash")
    root = os.path.join(scratch, "outer", "root")
    os.makedirs(os.path.dirname(root))
    rng = random.Random(case["sched_seed"])
    sc = S.Sched(rng, policy=case.get("policy", "random"),
                 policy_param=case.get("policy_param", 0),
                 choices=case.get("choices"),
                 max_steps=case.get("max_steps", 400000))
    fs = fslayer.FS(scratch, random.Random(case["sched_seed"] ^ 0xF5), chunk=0)
    fs.keep_log = False
    tracker = VersionTracker(scratch)
    fs.hooks.append(tracker.hook)
    state = {"violation": None, "instants": 0, "armed": False,
             "last_kind": None, "over": False}
    stride = case.get("stride", 1)
    reader_out = {"done": False, "result": None, "error": None,
                  "started_at": None}
    completed = 0
    try:
        with dsgen.seams(hist["name_seed"], hist.get("clock", "monotone")), \
                fs, sc:
            tfseam = TFWriterSeam(fs) if st["fmt"] == "tfrec" else None
            if tfseam:
                tfseam.__enter__()
            hr = dsgen.HistoryRunner(
                hist, root, pool_factory=lambda ses: simexec.SimPool)
            try:
                if case.get("crash_create"):
                    # crash points inside Dataset.create itself
                    def create_hook(ev) -> None:
                        if state["violation"] is None:
                            stats["create_instants"] += 1
                            try:
                                crash_oracle(hr, tracker, {}, {}, stats,
                                             f"crash inside Dataset.create "
                                             f"after effect #{ev[0]} "
                                             f"({ev[2]} {ev[3]})")
                            except Violation as v:
                                state["violation"] = v
                                raise

                    fs.hooks.append(create_hook)
                    fs.chunk = case.get("chunk", 0)
                    try:
                        hr.create()
                    finally:
                        fs.hooks.remove(create_hook)
                        fs.chunk = 0
                    if state["violation"] is not None:
                        raise state["violation"]
                    probes["crash_points_inside_create"] += 1
                else:
                    hr.create()
                last = len(hist["sessions"]) - 1
                for k in range(last):
                    try:
                        hr.run_session(k)
                        completed += 1
                    except (S.SimDeadlock, S.SimStepLimit, S.SimAbort):
                        raise
                    except Exception:  # pylint: disable=broad-except
                        hr.model.abort()
                        probes["prefix_session_raised"] += 1
                        raise StopIteration from None
                lower = {s: list(hr.model.ids(s)) for s in hr.model.committed}
                ses = hist["sessions"][last]
                upper = {s: list(v) for s, v in lower.items()}
                writes = ses.get("writes") or [
                    w for ws in ses.get("writers", []) for w in ws]
                for w in writes:
                    upper.setdefault(w["split"], []).append(w["id"])

                def hook(ev) -> None:
                    if not state["armed"] or state["violation"] is not None:
                        return
                    state["instants"] += 1
                    kind = ev[2]
                    probes["instant_" + kind] += 1
                    if state["last_kind"] == "replace":
                        probes["instant_right_after_rename"] += 1
                    state["last_kind"] = kind
                    if kind == "write" and ev[4] and fs.chunk:
                        probes["torn_write_instants"] += 1
                    # TFRecord: one oracle evaluation costs ~25 ms per shard
                    # (TensorFlow builds a dataset per file), so the sampling
                    # stride doubles after every 4 evaluations - a session
                    # with thousands of effects stays within seconds.  The
                    # instant of a kill is always evaluated.
                    stride_now = stride
                    if st["fmt"] == "tfrec":
                        stride_now = stride << min(10, state.get("evals", 0)
                                                   // 4)
                    dies = state["instants"] == case.get("crash_at")
                    if state["instants"] % stride_now and not dies:
                        return
                    state["evals"] = state.get("evals", 0) + 1
                    try:
                        crash_oracle(hr, tracker, lower, upper, stats,
                                     f"crash after effect #{ev[0]} "
                                     f"({kind} {ev[3]})")
                    except Violation as v:
                        state["violation"] = v
                        raise
                    if dies:
                        # the process is killed right here: nothing it does
                        # from now on reaches the disk
                        state["crashed_at"] = (ev[0], kind, ev[3])
                        fs.kill()
                        raise fslayer.SimCrash()

                fs.hooks.append(hook)
                fs.chunk = case.get("chunk", 0)

                # ---------------------------------- concurrent reader task
                if case.get("reader"):
                    start_at = case["reader_at"]

                    def reader() -> None:
                        sc.block(lambda: state["instants"] >= start_at or
                                 state["over"], "reader.wait")
                        if state["over"]:
                            return
                        reader_out["started_at"] = state["instants"]
                        probes["reader_started_mid_session"] += 1
                        try:
                            ds = hr.sio.Dataset(root)
                            res = {}
                            for split in list(ds._dataset_info.splits):  # pylint: disable=protected-access
                                res[split] = dsgen.read_sync(ds, split,
                                                             st["attrs"])
                            reader_out["result"] = res
                        except S.SimAbort:
                            raise
                        except Exception as e:  # pylint: disable=broad-except
                            reader_out["error"] = e
                        reader_out["done"] = True

                    sc.spawn(reader, name="reader")

                state["armed"] = True
                if case.get("io_error"):
                    # disk full / EIO: a seeded fallible operation of this
                    # session (and `burst - 1` following ones) fails; Python
                    # unwinds (the filler's __exit__ runs) and the process
                    # may die at any instant of that, or right after it
                    fs.write_fault = dict(case["io_error"])
                    fs.fallible_ops = 0
                try:
                    hr.run_session(last)
                    completed += 1
                    probes["crashing_session_completed"] += 1
                    if fs.write_fault and fs.write_fault.get("fired"):
                        probes["session_completed_despite_io_error"] += 1
                except fslayer.SimCrash:
                    hr.model.abort()
                    probes["process_killed"] += 1
                except (S.SimDeadlock, S.SimStepLimit, S.SimAbort, Violation):
                    raise
                except Exception:  # pylint: disable=broad-except
                    if state["violation"] is not None:
                        raise state["violation"]
                    hr.model.abort()
                    probes["crashing_session_raised"] += 1
                    if fs.write_fault and fs.write_fault.get("fired"):
                        probes["session_raised_after_io_error"] += 1
                finally:
                    if fs.write_fault:
                        wf, fs.write_fault = fs.write_fault, None
                        if wf.get("fired"):
                            state["io_error"] = wf.get("first")
                            probes["io_error_fired"] += 1
                            probes["io_error_at_" + wf["first"][0]] += 1
                    state["armed"] = False
                    state["over"] = True
                    fs.chunk = 0
                if state["violation"] is not None:
                    raise state["violation"]
                sc.drain("drain.reader")
                if state.get("crashed_at") or state.get("io_error"):
                    # ---------------- restart: a new process on the disk
                    # state the kill left behind writes one more session
                    fs.revive()
                    with fs.suspended():
                        # (a session that reported success although an I/O
                        # error was injected has committed all it wrote)
                        lower_now = {s: list(hr.model.ids(s))
                                     for s in hr.model.committed}
                        crash_oracle(hr, tracker, lower_now, upper, stats,
                                     "after the kill, before restart"
                                     if state.get("crashed_at") else
                                     f"after the session hit an I/O error at "
                                     f"{state.get('io_error')} and unwound")
                    after = case.get("after")
                    if after:
                        hist2 = dict(hist)
                        hist2["sessions"] = list(hist["sessions"]) + [after]
                        hr2 = dsgen.HistoryRunner(
                            hist2, root,
                            pool_factory=lambda ses: simexec.SimPool)
                        hr2.model = hr.model
                        ok2 = True
                        try:
                            hr2.reopen()
                            hr2.run_session(last + 1)
                        except (S.SimDeadlock, S.SimStepLimit, S.SimAbort,
                                Violation):
                            raise
                        except Exception as e:  # pylint: disable=broad-except
                            # continued writing after a *crash* is promised by
                            # no property; only its effect on data is checked
                            hr2.model.abort()
                            ok2 = False
                            probes["session_after_restart_raised_" +
                                   type(e).__name__] += 1
                        with fs.suspended():
                            lower2 = {s: list(hr2.model.ids(s))
                                      for s in hr2.model.committed}
                            upper2 = {s: list(v) for s, v in upper.items()}
                            aw = after.get("writes") or [
                                w for ws in after.get("writers", [])
                                for w in ws]
                            for w in aw:
                                upper2.setdefault(w["split"], []).append(
                                    w["id"])
                            crash_oracle(hr2, tracker, lower2, upper2, stats,
                                         "after restart and one more session"
                                         + ("" if ok2 else " (which raised)"))
                        if ok2:
                            probes["session_after_restart_completed"] += 1
                        hr = hr2
                # final state (no crash): everything committed is there
                with fs.suspended():
                    if not (state.get("crashed_at") or state.get("io_error")):
                        final_lower = {s: list(hr.model.ids(s))
                                       for s in hr.model.committed}
                        crash_oracle(hr, tracker, final_lower, upper, stats,
                                     "after the session completed")
                    if reader_out["done"]:
                        if reader_out["error"] is not None:
                            e = reader_out["error"]
                            raise Violation(
                                "C06", "concurrent_reader_failed",
                                f"reader started at instant "
                                f"{reader_out['started_at']}: "
                                f"{type(e).__name__}: {str(e)[:200]}")
                        for split, got in reader_out["result"].items():
                            err = dsgen.check_examples(got, st["attrs"],
                                                       st["fmt"])
                            if err:
                                raise Violation("C06",
                                                "concurrent_reader_torn_example",
                                                f"{split}: {err}")
                            seen = collections.Counter(i for i, _ in got)
                            lo = collections.Counter(lower.get(split, ()))
                            hi = collections.Counter(upper.get(split, ()))
                            if lo - seen or seen - hi:
                                raise Violation(
                                    "C06", "concurrent_reader_wrong_view",
                                    f"{split}: lost "
                                    f"{sorted((lo - seen).elements())[:6]} "
                                    f"extra {sorted((seen - hi).elements())[:6]}")
                        for split in lower:
                            if lower[split] and split not in reader_out[
                                    "result"]:
                                raise Violation("C06",
                                                "concurrent_reader_wrong_view",
                                                f"split {split} invisible")
                        stats["concurrent_reader_passes"] += 1
            except StopIteration:
                pass
            except Violation as v:
                out.update(ok=False, vclass=v.vclass, detail=v.detail,
                           key=dict(v.key, engine="E-crash", fmt=st["fmt"]))
            except S.SimDeadlock as e:
                out.update(ok=False, vclass="deadlock", detail=str(e),
                           key={"engine": "E-crash"})
            except S.SimStepLimit as e:
                out.update(ok=False, vclass="no_termination", detail=str(e),
                           key={"engine": "E-crash"})
            finally:
                if tfseam:
                    tfseam.__exit__()
    finally:
        shutil.rmtree(scratch, ignore_errors=True)
    tree_states = stats.pop("_states", set())
    stats["sessions_completed"] += completed
    stats["scheduler_decisions"] += sc.steps
    stats["fs_effects"] += fs.n_effects
    stats["crash_instants"] += state["instants"]
    probes.update(sc.probes)
    h = hashlib.sha1(sc.digest().encode())
    h.update(repr(sorted(stats.items())).encode())
    ses = hist["sessions"][-1]
    probes["crashing_kind_" + ses["kind"]] += 1
    probes["crashing_session_%s" % ("continued" if len(hist["sessions"]) > 1
                                    else "first")] += 1
    out.update({
        "digest": h.hexdigest(),
        "nontrivial": state["instants"] > 5,
        "states": list(tree_states)[:2000],
        "stats": dict(stats), "probes": dict(probes),
        "faults": {"process_crash_points": stats["crash_instants_evaluated"],
                   "process_killed_and_restarted":
                   probes.get("process_killed", 0),
                   "torn_writes": probes.get("torn_write_instants", 0),
                   "write_side_io_errors": probes.get("io_error_fired", 0),
                   "concurrent_reader": 1 if reader_out["started_at"]
                   is not None else 0},
        "sample": {"structure": st, "chunk": case.get("chunk"),
                   "sessions": [
                       {k: (v if k not in ("writes", "writers") else
                            (len(v) if k == "writes" else [len(x) for x in v]))
                        for k, v in s.items()} for s in hist["sessions"]],
                   "crash_instants": state["instants"],
                   "killed_at": state.get("crashed_at"),
                   "io_error_at": state.get("io_error"),
                   "reader_started_at": reader_out["started_at"]},
    })
    if not out["ok"] and "choices" not in case:
        case["choices"] = list(sc.choices_out)
    return out
