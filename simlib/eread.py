"""E-read: drive every iteration interface over generated datasets.

 sync   as_numpy_iterator                      (no concurrency)
 conc   as_numpy_iterator_concurrent           LazyPool on the baton scheduler
                                               (shuffle>0) / SimExecutor
                                               (shuffle==0)
 async  as_numpy_iterator_async                virtual-time SimLoop, seeded
                                               completion order of file reads
 rust   as_numpy_iterator_rust                 real extension built from the
                                               working tree, UNCONTROLLED
 tfdata as_tfdataset                           real tf.data, UNCONTROLLED
"""
from __future__ import annotations

import asyncio
import collections
import contextlib
import os
import pickle
import random
import shutil
import signal
import time

from simlib import bootstrap, dsgen, fslayer, sched as S, simexec, simloop

IFACES = ("sync", "conc", "async", "rust", "tfdata")


def supports(iface: str, st: dict) -> bool:
    fmt, comp = st["fmt"], st["compression"]
    if iface == "async":
        return fmt in ("fb", "npz")
    if iface == "rust":
        return (fmt == "fb" and comp in dsgen.RUST_COMPRESSIONS and
                bootstrap.RUST_SOURCE not in ("none", "stub"))
    return True


@contextlib.contextmanager
def sim_bindings(*handles):
    """Put the concurrency of the iteration code under the scheduler: the
    given dataset handles temporarily become instances of the Dataset class
    built from the re-executed (shimmed) dataset_iteration.py; the names of
    the real module are re-bound as well (code that still reaches it)."""
    import sedpack.io.dataset_iteration as di
    simcls = bootstrap.sim_dataset_cls()
    swapped = []
    for hnd in handles:
        if hnd is not None and hnd.__class__ is not simcls:
            swapped.append((hnd, hnd.__class__))
            hnd.__class__ = simcls
    lp = bootstrap.sim_lazy_pool()
    # (only names the module really has: a restructured module may import
    # neither; whatever else it takes from threading / queue /
    # concurrent.futures is rebound by sched.patch_sedpack_globals)
    saved = {}
    for name, repl in (("LazyPool", lp.LazyPool),
                       ("ThreadPoolExecutor", simexec.SimExecutor)):
        if hasattr(di, name):
            saved[name] = getattr(di, name)
            setattr(di, name, repl)
    try:
        yield
    finally:
        for name, val in saved.items():
            setattr(di, name, val)
        for hnd, cls in swapped:
            hnd.__class__ = cls


class ReadEnv:
    """Scratch dataset built from case["hist"] (public API only)."""

    def __init__(self, hist: dict, seed: int, track_reads: bool = True):
        self.hist = hist
        self.st = hist["structure"]
        self.seed = seed
        self.scratch = fslayer.new_scratch("read")
        self.root = os.path.join(self.scratch, "outer", "root")
        os.makedirs(os.path.dirname(self.root))
        self.fs = fslayer.FS(self.scratch, random.Random(seed ^ 0xF5),
                             track_reads=track_reads)
        self.fs.keep_log = False
        self._stack = contextlib.ExitStack()
        self.opens: list[str] = []  # shard files opened for reading (rel)
        self.hr = None

    def __enter__(self) -> "ReadEnv":
        self._stack.enter_context(
            dsgen.seams(self.hist["name_seed"], self.hist.get("clock",
                                                              "monotone")))
        self._stack.enter_context(self.fs)
        need_pool = any(s["kind"] == "multi" and not s.get("single_process")
                        for s in self.hist["sessions"])
        hr = dsgen.HistoryRunner(
            self.hist, self.root,
            pool_factory=(lambda ses: simexec.SimPool) if need_pool else None)
        if need_pool:
            # multi-writer sessions run on the simulated process pool, their
            # file-system effects interleaved by a seeded scheduler
            self.build_sched = S.Sched(random.Random(self.seed ^ 0xB111D),
                                       policy=self.hist.get("build_policy",
                                                            "random"),
                                       max_steps=400000)
            with self.build_sched:
                hr.create()
                for k in range(len(self.hist["sessions"])):
                    hr.run_session(k)
        else:
            self.build_sched = None
            with self.fs.suspended():
                hr.create()
                for k in range(len(self.hist["sessions"])):
                    hr.run_session(k)
        self.hr = hr
        self.model = hr.model
        self.sio = hr.sio
        ext = esess_ext(self.st["fmt"])
        self.fs.read_hooks.append(
            lambda rel, full: self.opens.append(rel) if rel.endswith(ext)
            else None)
        return self

    def __exit__(self, *exc) -> bool:
        self._stack.close()
        shutil.rmtree(self.scratch, ignore_errors=True)
        return False

    def open(self):
        return self.sio.Dataset(self.root)

    def shard_table(self, split: str) -> list[dict]:
        """Shards of a split in enumeration order with their decoded ids
        (independent walker + format reader)."""
        with self.fs.suspended():
            _, _, shards = dsgen.walk_tree(self.root)
            out = []
            for sh in shards:
                if sh["split"] != split:
                    continue
                sh = dict(sh)
                sh["ids"] = [i for i, _ in dsgen.decode_shard(
                    self.root, sh["path"], self.st)]
                out.append(sh)
        return out


def esess_ext(fmt: str) -> str:
    return {"fb": ".fb", "npz": ".npz", "tfrec": ".tfrec"}[fmt]


class Counter:
    """process_record that counts how often each example id is processed."""

    def __init__(self, attrs):
        self.calls = collections.Counter()
        self.attrs = attrs

    def __call__(self, example):
        ident, _ = dsgen.canon(example, self.attrs)
        self.calls[ident] += 1
        return example


def make_iter(ds, iface: str, split: str, opts: dict, process_record=None):
    """The (sync) iterable of an interface; async is handled separately."""
    kw = dict(split=split, repeat=opts.get("repeat", False),
              shuffle=opts.get("shuffle", 0))
    for k in ("shards", "shard_filter"):
        if opts.get(k) is not None:
            kw[k] = opts[k]
    if process_record is not None:
        kw["process_record"] = process_record
    if iface == "sync":
        if opts.get("limit") is not None:
            kw["custom_metadata_type_limit"] = opts["limit"]
        return ds.as_numpy_iterator(**kw)
    if iface == "conc":
        if opts.get("limit") is not None:
            kw["custom_metadata_type_limit"] = opts["limit"]
        return ds.as_numpy_iterator_concurrent(
            file_parallelism=opts.get("fp", 2), **kw)
    if iface == "rust":
        return ds.as_numpy_iterator_rust(file_parallelism=opts.get("fp", 2),
                                         **kw)
    if iface == "tfdata":
        if opts.get("limit") is not None:
            kw["custom_metadata_type_limit"] = opts["limit"]
        kw.pop("process_record", None)
        if opts.get("tf_slow"):
            kw["process_record"] = slow_tf_identity(ds)
        batch = opts.get("batch", 0)
        tfds = ds.as_tfdataset(batch_size=batch,
                               prefetch=opts.get("prefetch", 1),
                               file_parallelism=opts.get("fp", 2),
                               parallelism=opts.get("fp", 2), **kw)
        # the same tf.data.Dataset object iterated before (a few elements
        # taken, iterator dropped): every iteration starts a fresh stream
        for pre in opts.get("tf_reiterate", ()):
            earlier = iter(tfds.as_numpy_iterator())
            for _ in range(pre):
                next(earlier, None)
            del earlier
        if batch <= 0:
            return tfds.as_numpy_iterator()
        return unbatch(tfds.as_numpy_iterator())
    raise ValueError(iface)


def unbatch(batches):
    """Flatten tf.data batches (dicts of stacked arrays) into examples."""
    for b in batches:
        n = len(next(iter(b.values())))
        for i in range(n):
            yield {name: v[i] for name, v in b.items()}


def slow_tf_identity(ds):
    """A caller-supplied per-example transformation with uneven (real)
    latency: every third example takes ~15 ms.  tf.data is uncontrolled; the
    skew gives a parallel map the chance to reorder if it is allowed to."""
    import numpy as np
    import tensorflow as tf

    def delay(ident):
        if int(ident) % 3 == 0:
            time.sleep(0.015)
        return np.int64(ident)

    def fn(example):
        out = dict(example)
        ident = tf.numpy_function(delay, [tf.cast(example["id"], tf.int64)],
                                  tf.int64)
        ident.set_shape(())
        out["id"] = tf.cast(ident, example["id"].dtype)
        return out

    return fn


def take(iterable, k):
    """First k elements (all when k is None); closes the iterator."""
    out = []
    it = iter(iterable)
    try:
        if k is None:
            for e in it:
                out.append(e)
        else:
            while len(out) < k:
                try:
                    out.append(next(it))
                except StopIteration:
                    break
    finally:
        close = getattr(it, "close", None)
        if close is not None:
            close()
    return out


def consume_async(ds, splits_opts: list, attrs, loop_seed: int, k=None,
                  counters=None, pause: float = 0.0):
    """Run one consumer per (split, opts) concurrently on a SimLoop.
    Returns (list of result lists, loop)."""
    loop = simloop.SimLoop(random.Random(loop_seed))
    results = [[] for _ in splits_opts]

    async def one(i, split, opts):
        kw = dict(split=split, repeat=opts.get("repeat", False),
                  shuffle=opts.get("shuffle", 0),
                  file_parallelism=opts.get("fp", 2))
        for name in ("shards", "shard_filter"):
            if opts.get(name) is not None:
                kw[name] = opts[name]
        if counters is not None:
            kw["process_record"] = counters[i]
        agen = ds.as_numpy_iterator_async(**kw)
        try:
            async for e in agen:
                results[i].append(dsgen.canon(e, attrs))
                loop.trace.append((i, results[i][-1][0]))
                if k is not None and len(results[i]) >= k:
                    break
                if pause:
                    # a consumer that takes (virtual) time per example:
                    # background producers may run ahead meanwhile
                    await asyncio.sleep(pause)
        finally:
            await agen.aclose()

    async def main():
        await asyncio.gather(*[one(i, s, o)
                               for i, (s, o) in enumerate(splits_opts)])

    loop.run(main())
    return results, loop


def forked(fn, timeout: float):
    """Run fn() in a forked child with a wall-clock watchdog (for components
    the simulator does not control and that may block while holding the GIL).
    Returns ("ok", value) | ("exc", repr) | ("hang", None) | ("died", code)."""
    # (result through a file, never a pipe: a descendant hung in native code
    # could keep a pipe open for ever)
    res_path = f"/dev/shm/verif-fork-{os.getpid()}-{time.time_ns()}.pkl"
    rstate = random.getstate()
    pid = os.fork()
    if pid == 0:
        code = 0
        try:
            from simlib.runner import die_with_parent
            die_with_parent()
            # CPython re-seeds `random` from the OS in a forked child
            # (os.register_at_fork); restore the run's seeded state
            random.setstate(rstate)
            signal.setitimer(signal.ITIMER_REAL, 0)
            try:
                val = ("ok", fn())
            except BaseException as e:  # pylint: disable=broad-except
                val = ("exc", f"{type(e).__name__}: {str(e)[:300]}")
            with fslayer.real_open(res_path + ".tmp", "wb") as f:
                pickle.dump(val, f)
            os.rename(res_path + ".tmp", res_path)
        except BaseException:  # pylint: disable=broad-except
            code = 3
        finally:
            os._exit(code)
    deadline = time.time() + timeout
    status = None
    while time.time() < deadline:
        got, st = os.waitpid(pid, os.WNOHANG)
        if got:
            status = st
            break
        time.sleep(0.005)
    if status is None:
        os.kill(pid, signal.SIGKILL)
        os.waitpid(pid, 0)
        for p_ in (res_path, res_path + ".tmp"):
            if os.path.exists(p_):
                os.unlink(p_)
        return ("hang", None)
    if not os.path.exists(res_path):
        return ("died", status)
    with fslayer.real_open(res_path, "rb") as f:
        data = f.read()
    os.unlink(res_path)
    return pickle.loads(data)


def read_hist(rng: random.Random, fmt=None, formats=("fb", "fb", "npz", "npz",
                                                     "tfrec"),
              n_examples=None, compression=None, meta_modes=("none",),
              kinds=("root", "root", "sub", "multi"), max_sessions=2,
              eps=None, splits=None, simpool=False) -> dict:
    """A small history for read-side checks: 1..2 sessions, uneven last
    shard, nested lists from sub-directory and multi-writer sessions."""
    hist = dsgen.gen_history(rng, n_sessions=rng.randrange(1, max_sessions + 1),
                             fmt=fmt, formats=formats, kinds=kinds,
                             meta_modes=meta_modes, max_payload=1,
                             hashes=[], splits=splits, max_writers=3)
    if compression is not None:
        hist["structure"]["compression"] = compression
    if eps is not None:
        hist["structure"]["eps"] = eps
    for s in hist["sessions"]:
        s["reopen"] = rng.random() < 0.3
        if s["kind"] == "multi":
            s["single_process"] = not simpool
    if n_examples is not None:
        # rewrite the first session to hold exactly n_examples in one split
        ids = iter(range(10**6, 10**7))
        split = hist["splits"][0]
        hist["sessions"] = [{"kind": "root", "reopen": False, "writes": [
            {"split": split, "id": next(ids)} for _ in range(n_examples)]}]
    return hist


class ReaderRun:
    """Result of one consumer run."""

    def __init__(self):
        self.items = []       # canon'd examples in arrival order
        self.exc = None       # exception delivered to the consumer
        self.deadlock = None  # simulator verdict (controlled components)
        self.sched = None
        self.loop = None
        self.leftover_tasks = 0
        self.opens_at_yield = []  # shard-file opens observed at each yield


def run_reader(env: ReadEnv, ds, iface: str, split: str, opts: dict, k=None,
               seed: int = 0, policy: str = "random", policy_param: int = 0,
               counter=None, choices=None, max_steps: int = 200000,
               abandon_without_close: bool = False,
               line_prob: float = 0.0, pause: float = 0.0,
               consumer_works: bool = False) -> ReaderRun:
    """Consume (the first k elements of) one interface under the simulator.
    Never raises for exceptions coming out of sedpack: they are recorded."""
    attrs = env.st["attrs"]
    rr = ReaderRun()
    base_opens = len(env.opens)

    def pump(iterable):
        it = iter(iterable)
        try:
            while k is None or len(rr.items) < k:
                try:
                    e = next(it)
                except StopIteration:
                    break
                rr.items.append(dsgen.canon(e, attrs))
                rr.opens_at_yield.append(len(env.opens) - base_opens)
                if consumer_works:
                    # the consumer spends time on the example: a scheduling
                    # point at which readers may run ahead
                    cur = S.current()
                    if cur is not None:
                        for _ in range(3):
                            cur.yield_("consume")
        finally:
            close = getattr(it, "close", None)
            if close is not None and not abandon_without_close:
                close()

    try:
        if iface == "async":
            res, loop = consume_async(ds, [(split, opts)], attrs, seed, k=k,
                                      counters=[counter] if counter else None,
                                      pause=pause)
            rr.items = res[0]
            rr.loop = loop
        elif iface == "conc":
            sc = S.Sched(random.Random(seed), policy=policy,
                         policy_param=policy_param, choices=choices,
                         max_steps=max_steps,
                         trace_files=(bootstrap.LAZY_POOL_PY,)
                         if line_prob else (), line_prob=line_prob)
            rr.sched = sc
            with sim_bindings(ds), sc:
                try:
                    pump(make_iter(ds, "conc", split, opts, counter))
                except (S.SimDeadlock, S.SimStepLimit):
                    raise
                except Exception as e:  # pylint: disable=broad-except
                    rr.exc = e
                try:
                    sc.drain()
                except S.SimDeadlock as e:
                    rr.leftover_tasks = sum(
                        1 for t in sc.tasks
                        if t is not sc.main and t.state != S.DONE)
                    rr.deadlock = "workers do not terminate: " + str(e)
        else:
            pump(make_iter(ds, iface, split, opts, counter))
    except S.SimDeadlock as e:
        rr.deadlock = "deadlock: " + str(e)
    except S.SimStepLimit as e:
        rr.deadlock = "no termination within the step budget: " + str(e)
    except simloop.SimLoopDeadlock as e:
        rr.deadlock = "async deadlock: " + str(e)
    except Exception as e:  # pylint: disable=broad-except
        rr.exc = e
    return rr


def with_watchdog(fn, seconds: float):
    """Run fn() in-process under a shorter SIGALRM deadline (for tf.data,
    which cannot be forked safely).  Returns ("ok", value) or ("hang", None).
    The runner's own per-case timer is restored afterwards."""
    from simlib.runner import CaseTimeout
    t0 = time.time()
    old = signal.setitimer(signal.ITIMER_REAL, seconds)
    try:
        return ("ok", fn())
    except CaseTimeout:
        return ("hang", None)
    finally:
        left = max(0.5, old[0] - (time.time() - t0)) if old[0] else 0
        signal.setitimer(signal.ITIMER_REAL, left)


def confirm_hang_in_subprocess(prop_id: str, case: dict,
                               timeout: float = 150.0) -> bool:
    """A forked child that used TensorFlow did not answer.  Fork-after-TF is
    not guaranteed to be safe, so before calling it a hang the case is re-run
    in a *fresh interpreter* without any fork; only a second time-out counts."""
    import json
    import subprocess
    import sys
    import tempfile
    with tempfile.NamedTemporaryFile("w", suffix=".json", dir="/dev/shm",
                                     delete=False) as f:
        json.dump({k: v for k, v in case.items() if k != "choices"}, f)
        path = f.name
    env = dict(os.environ)
    env["VERIF_NO_FORK"] = "1"
    try:
        subprocess.run([sys.executable,
                        os.path.join(bootstrap.VERIF, "simlib", "main.py"),
                        "runcase", prop_id, path], env=env, timeout=timeout,
                       capture_output=True, check=False)
        return False
    except subprocess.TimeoutExpired:
        return True
    finally:
        os.unlink(path)


def run_staggered(env: ReadEnv, ds, specs: list, seed: int, pattern: int,
                  policy: str = "random", max_steps: int = 300000):
    """Passes of ONE handle with overlapping, non-nested lifetimes: every spec
    (iface, split, opts, passes) is a stream of `passes` consecutive complete
    passes (a finished pass is followed by a fresh iterator while the other
    streams are still in the middle of theirs); the streams start one after
    another in seeded order and are advanced alternately by one consumer.
    Returns ({spec index: [pass, ...]}, error string | None, sched)."""
    attrs = env.st["attrs"]
    done: dict = {i: [] for i in range(len(specs))}
    sc = S.Sched(random.Random(seed), policy=policy, max_steps=max_steps)
    err = None
    order = list(range(len(specs)))
    random.Random(seed ^ 0x51A6).shuffle(order)
    with sim_bindings(ds), sc:
        try:
            its: dict = {}
            cur: dict = {}
            left = {i: specs[i][3] for i in order}
            step = 0
            started = 0
            while any(left.values()) or its:
                # a new stream joins after every few steps
                if started < len(order) and (step % 3 == 0 or not its):
                    i = order[started]
                    started += 1
                    if left[i] > 0:
                        its[i] = iter(make_iter(ds, specs[i][0], specs[i][1],
                                                specs[i][2], None))
                        cur[i] = []
                live = sorted(its)
                if not live:
                    continue
                which = live[(pattern >> (step % 30)) % len(live)]
                step += 1
                try:
                    e = next(its[which])
                    cur[which].append(dsgen.canon(e, attrs))
                except StopIteration:
                    done[which].append(cur.pop(which))
                    del its[which]
                    left[which] -= 1
                    if left[which] > 0:
                        its[which] = iter(make_iter(
                            ds, specs[which][0], specs[which][1],
                            specs[which][2], None))
                        cur[which] = []
            sc.drain()
        except S.SimDeadlock as e:
            err = "deadlock: " + str(e)
        except S.SimStepLimit as e:
            err = "no termination: " + str(e)
        except BaseException as e:  # pylint: disable=broad-except
            if isinstance(e, (KeyboardInterrupt, SystemExit)):
                raise
            from simlib.runner import CaseTimeout
            if isinstance(e, CaseTimeout):
                raise
            # (pyo3's PanicException derives from BaseException)
            err = f"{type(e).__name__}: {str(e)[:200]}"
    return done, err, sc


def run_interleaved(env: ReadEnv, ds, specs: list, seed: int, pattern: int,
                    policy: str = "random", max_steps: int = 300000):
    """Two (or more) iterators of ONE dataset handle alive at the same time
    and advanced alternately by one consumer (a training loop that validates
    in the middle of an epoch).  specs: [(iface, split, opts, counter)] with
    iface in {sync, conc}.  Returns (list of result lists, error string|None,
    sched)."""
    attrs = env.st["attrs"]
    results = [[] for _ in specs]
    sc = S.Sched(random.Random(seed), policy=policy, max_steps=max_steps)
    err = None
    with sim_bindings(ds), sc:
        try:
            its = [iter(make_iter(ds, iface, split, opts, counter))
                   for iface, split, opts, counter in specs]
            live = [True] * len(its)
            step = 0
            while any(live):
                which = (pattern >> (step % 30)) % len(its)
                step += 1
                if not live[which]:
                    which = live.index(True)
                try:
                    e = next(its[which])
                except StopIteration:
                    live[which] = False
                    continue
                results[which].append(dsgen.canon(e, attrs))
            for it in its:
                close = getattr(it, "close", None)
                if close is not None:
                    close()
            sc.drain()
        except S.SimDeadlock as e:
            err = "deadlock: " + str(e)
        except S.SimStepLimit as e:
            err = "no termination: " + str(e)
        except Exception as e:  # pylint: disable=broad-except
            err = f"{type(e).__name__}: {str(e)[:200]}"
    return results, err, sc
