"""E-sess: run a generated history against real sedpack on an instrumented
tmpfs directory, under the scheduler (multi-writer sessions use SimPool), and
evaluate the history oracles (C04, C08, C10, C11) after every session."""
from __future__ import annotations

import collections
import hashlib
import os
import random
import shutil

from simlib import bootstrap, dsgen, fslayer, sched as S, simexec

EXT = {"fb": ".fb", "npz": ".npz", "tfrec": ".tfrec"}


def tree_digest(root: str) -> str:
    h = hashlib.sha1()
    for dirpath, dirnames, filenames in os.walk(root):
        dirnames.sort()
        for name in sorted(filenames):
            p = os.path.join(dirpath, name)
            h.update(os.path.relpath(p, root).encode())
            with fslayer.real_open(p, "rb") as f:
                h.update(f.read())
    return h.hexdigest()


class Violation(Exception):

    def __init__(self, prop: str, vclass: str, detail: str, key=None):
        super().__init__(detail)
        self.prop = prop
        self.vclass = vclass
        self.detail = detail
        self.key = key or {}


# ------------------------------------------------------------------ oracles
def oracle_c04(hr: dsgen.HistoryRunner, stats) -> None:
    root, st = hr.root, hr.st
    info, lists, shards = dsgen.walk_tree(root)
    decoded_by_split = collections.Counter()
    shards_by_split = collections.Counter()
    seen = collections.Counter(s["path"] for s in shards)
    dup = [p for p, c in seen.items() if c > 1]
    if dup:
        raise Violation("C04", "shard_listed_twice", f"{dup}")
    for sh in shards:
        full = os.path.join(root, sh["path"])
        if os.path.dirname(sh["path"]) != os.path.dirname(sh["list"]):
            raise Violation("C04", "shard_not_in_list_directory",
                            f"{sh['path']} listed by {sh['list']}")
        if not os.path.isfile(full):
            raise Violation("C04", "listed_file_missing", sh["path"])
        rows = dsgen.stored_rows(root, sh["path"], st, 0)
        if rows > sh["count"]:
            # (judged before decoding: ragged npz columns make the reader
            # raise; any other decoding failure propagates as before)
            raise Violation("C04", "shard_count_wrong",
                            f"{sh['path']}: recorded {sh['count']}, a column "
                            f"of the file holds {rows} rows")
        n = len(dsgen.decode_shard(root, sh["path"], st))
        n = dsgen.stored_rows(root, sh["path"], st, n)
        stats["shards_decoded"] += 1
        if n != sh["count"]:
            raise Violation("C04", "shard_count_wrong",
                            f"{sh['path']}: recorded {sh['count']} decoded {n}")
        decoded_by_split[sh["split"]] += n
        shards_by_split[sh["split"]] += 1
    # list totals, bottom-up facts from the JSON documents themselves
    true_examples = {}
    true_shards = {}

    def totals(rel):
        if rel in true_examples:
            return true_examples[rel], true_shards[rel]
        doc = lists[rel]["doc"]
        ex = sum(s.get("number_of_examples", 0)
                 for s in doc.get("shard_files", []))
        ns = len(doc.get("shard_files", []))
        for ch in doc.get("children_shard_lists", []):
            crel = ch["shard_list_info_file"]["file_path"]
            cex, cns = totals(crel)
            if ch.get("number_of_examples", 0) != cex:
                raise Violation(
                    "C04", "child_summary_examples_wrong",
                    f"{rel} says child {crel} has "
                    f"{ch.get('number_of_examples', 0)} examples, true {cex}")
            if ch.get("number_of_shards", 0) != cns:
                raise Violation(
                    "C04", "child_summary_shards_wrong",
                    f"{rel} says child {crel} has "
                    f"{ch.get('number_of_shards', 0)} shards, true {cns}")
            if ch.get("number_of_examples", 0) != lists[crel]["doc"].get(
                    "number_of_examples", 0):
                raise Violation("C04", "child_summary_vs_child_file",
                                f"{rel} -> {crel}")
            if os.path.dirname(os.path.dirname(crel)) != os.path.dirname(rel):
                raise Violation("C04", "child_list_not_in_subdirectory",
                                f"{rel} -> {crel}")
            ex += cex
            ns += cns
        if doc.get("number_of_examples", 0) != ex:
            raise Violation(
                "C04", "list_total_wrong",
                f"{rel}: number_of_examples "
                f"{doc.get('number_of_examples', 0)} but shards+children {ex}")
        if doc.get("relative_path_self") != rel:
            raise Violation("C04", "relative_path_self_wrong",
                            f"{rel}: {doc.get('relative_path_self')}")
        true_examples[rel], true_shards[rel] = ex, ns
        return ex, ns

    for split, sli in info.get("splits", {}).items():
        rel = sli["shard_list_info_file"]["file_path"]
        ex, ns = totals(rel)
        if sli.get("number_of_examples", 0) != ex or ex != decoded_by_split[
                split]:
            raise Violation(
                "C04", "split_examples_wrong",
                f"{split}: recorded {sli.get('number_of_examples', 0)} "
                f"lists {ex} decoded {decoded_by_split[split]}")
        if sli.get("number_of_shards", 0) != ns or ns != shards_by_split[
                split]:
            raise Violation(
                "C04", "split_shards_wrong",
                f"{split}: recorded {sli.get('number_of_shards', 0)} lists "
                f"{ns} actual {shards_by_split[split]}")
    # unlisted shard files anywhere in the tree
    ext = EXT[st["fmt"]]
    on_disk = set()
    for dirpath, _, filenames in os.walk(root):
        for name in filenames:
            if name.endswith(ext):
                on_disk.add(os.path.relpath(os.path.join(dirpath, name), root))
    unlisted = sorted(on_disk - set(seen))
    if unlisted:
        raise Violation("C04", "shard_file_unlisted", f"{unlisted[:4]}")
    # the handle's description equals what a fresh open reads
    fresh = hr.sio.Dataset(root)
    if fresh._dataset_info != hr.ds._dataset_info:  # pylint: disable=protected-access
        raise Violation("C04", "handle_description_differs_from_disk",
                        "in-memory DatasetInfo != freshly loaded one")
    stats["c04_evaluations"] += 1


def read_all(hr: dsgen.HistoryRunner, ds=None) -> dict:
    ds = ds or hr.ds
    out = {}
    for split in ds._dataset_info.splits:  # pylint: disable=protected-access
        out[split] = dsgen.read_sync(ds, split, hr.st["attrs"])
    return out


def oracle_c08(hr: dsgen.HistoryRunner, stats) -> None:
    st = hr.st
    fresh = hr.sio.Dataset(hr.root)
    for who, handle in (("reopened", fresh), ("kept", hr.ds)):
        _c08_compare(hr, stats, read_all(hr, handle), who)
    stats["c08_evaluations"] += 1


def _c08_compare(hr, stats, got, who) -> None:
    st = hr.st
    for split in set(got) | set(hr.model.committed):
        have = got.get(split, [])
        err = dsgen.check_examples(have, st["attrs"], st["fmt"])
        if err:
            raise Violation("C08", "example_corrupted", f"{split}: {err}")
        want = collections.Counter(hr.model.ids(split))
        seen = collections.Counter(i for i, _ in have)
        if want != seen:
            missing = sorted((want - seen).elements())
            extra = sorted((seen - want).elements())
            raise Violation(
                "C08", "lost_examples" if missing else "extra_examples",
                f"session {hr.session_no} split {split} ({who} handle): "
                f"missing {missing[:8]} extra {extra[:8]}",
                key={"handle": who})


def oracle_c08_create(hr: dsgen.HistoryRunner, stats) -> None:
    from pathlib import Path
    from sedpack.io.metadata import Metadata
    before = tree_digest(hr.root)
    parent, name = os.path.split(hr.root)
    # the same directory, spelled the ways a caller may spell it
    spellings = [("absolute str", hr.root), ("absolute Path", Path(hr.root)),
                 ("relative", name), ("dotted", os.path.join(".", name)),
                 ("through ..", os.path.join(parent, "elsewhere", "..", name)),
                 ("tilde", os.path.join("~", name))]
    saved_cwd, saved_home = os.getcwd(), os.environ.get("HOME")
    os.chdir(parent)
    os.environ["HOME"] = parent
    try:
        for how, path in spellings:
            try:
                hr.sio.Dataset.create(path=path,
                                      metadata=Metadata(description="again"),
                                      dataset_structure=dsgen.make_structure(
                                          hr.sio, hr.st))
            except Exception:  # pylint: disable=broad-except
                pass
            else:
                raise Violation("C08", "create_over_existing_not_refused",
                                f"path spelled as {how}",
                                key={"spelling": how})
            if tree_digest(hr.root) != before:
                raise Violation("C08", "refused_create_changed_files",
                                f"path spelled as {how}",
                                key={"spelling": how})
            stats["create_refusals_checked"] += 1
    finally:
        os.chdir(saved_cwd)
        if saved_home is None:
            os.environ.pop("HOME", None)
        else:
            os.environ["HOME"] = saved_home


def shards_with_ids(hr: dsgen.HistoryRunner):
    _, _, shards = dsgen.walk_tree(hr.root)
    for sh in shards:
        try:
            sh["ids"] = [i for i, _ in dsgen.decode_shard(hr.root, sh["path"],
                                                          hr.st)]
        except Exception as e:  # pylint: disable=broad-except
            # ragged columns and the like: the oracles judge the stored rows
            sh["ids"] = []
            sh["decode_error"] = f"{type(e).__name__}: {str(e)[:120]}"
    return shards


def oracle_c10(hr: dsgen.HistoryRunner, stats) -> None:
    eps = hr.st["eps"]
    shards = shards_with_ids(hr)
    rec_by_id = {}
    for split, recs in hr.model.committed.items():
        for r in recs:
            rec_by_id[r.id] = (split, r)
    groups = collections.defaultdict(list)
    for sh in shards:
        n = dsgen.stored_rows(hr.root, sh["path"], hr.st, len(sh["ids"]))
        if not 1 <= n <= eps or n != sh["count"] or sh.get("decode_error"):
            raise Violation(
                "C10", "shard_size_out_of_range",
                f"{sh['path']}: recorded {sh['count']} stored {n} eps {eps} "
                f"{sh.get('decode_error', '')}")
        owners = {(rec_by_id[i][1].session, rec_by_id[i][1].writer)
                  for i in sh["ids"] if i in rec_by_id}
        if len(owners) == 1:
            (ses, wr), = owners
            groups[(ses, wr, sh["split"])].append(sh)
    for (ses, wr, split), shs in groups.items():
        recs = [r for r in hr.model.committed[split]
                if r.session == ses and r.writer == wr]
        pos = {r.id: k for k, r in enumerate(recs)}
        shs.sort(key=lambda s: min(pos.get(i, 10**9) for i in s["ids"]))
        for a in shs[:-1]:
            if len(a["ids"]) >= eps:
                continue
            stats["non_full_non_last_shards"] += 1
            last = max(pos[i] for i in a["ids"] if i in pos)
            nxt = recs[last + 1] if last + 1 < len(recs) else None
            # label of the shard as the caller gave it (model snapshots, not
            # the recorded value: a wrong recorded label is C11's business)
            labels = [recs[pos[i]].meta for i in a["ids"]
                      if i in pos and recs[pos[i]].meta]
            # a write the format rejected in between still carried metadata
            # the caller passed: from the caller's side the metadata changed
            hi = nxt.seq if nxt is not None else 10**12
            # (it may also have labelled the still unlabelled open shard, so
            # any earlier rejected write with metadata in this session/split
            # makes the caller-side label of this shard ambiguous: skip)
            if any(r.meta and r.seq < hi and r.session == ses and
                   r.writer == wr for r in hr.model.rejected.get(split, ())):
                stats["rollover_next_to_rejected_write"] += 1
                continue
            if (nxt is None or not nxt.meta or not labels or
                    nxt.meta == labels[-1]):
                raise Violation(
                    "C10", "non_last_shard_not_full",
                    f"session {ses} writer {wr} split {split}: shard with "
                    f"{len(a['ids'])}/{eps} examples ids {a['ids']} meta "
                    f"{a['meta']} is followed by write "
                    f"{nxt.id if nxt else None} meta "
                    f"{nxt.meta if nxt else None}")
    stats["c10_evaluations"] += 1
    stats["shards_seen"] += len(shards)


def oracle_c11(hr: dsgen.HistoryRunner, stats) -> None:
    shards = shards_with_ids(hr)
    where = {}
    for sh in shards:
        for i in sh["ids"]:
            where[i] = sh
    distinct = []
    for split, recs in hr.model.committed.items():
        for r in recs:
            if not r.meta:
                continue
            sh = where.get(r.id)
            if sh is None:
                continue  # loss is C08's business
            if r.meta not in distinct:
                distinct.append(r.meta)
            if sh["meta"] != r.meta:
                raise Violation(
                    "C11", "example_in_shard_with_other_metadata",
                    f"id {r.id} written with {r.meta} lies in shard "
                    f"{sh['path']} labelled {sh['meta']}")
            stats["labelled_examples_checked"] += 1
    # selection by metadata through the public API
    fresh = hr.sio.Dataset(hr.root)
    for meta in distinct[:3]:
        for split, recs in hr.model.committed.items():
            want = {r.id for r in recs if r.meta == meta}
            forbidden = {r.id for r in recs if r.meta and r.meta != meta}
            if not want:
                continue
            try:
                got = {i for i, _ in dsgen.read_sync(
                    fresh, split, hr.st["attrs"],
                    shard_filter=lambda s, m=meta: s.custom_metadata == m)}
            except ValueError:
                got = set()
            if not want <= got:
                raise Violation(
                    "C11", "selection_misses_examples",
                    f"{split} meta {meta}: missing {sorted(want - got)[:6]}")
            if got & forbidden:
                raise Violation(
                    "C11", "selection_returns_foreign_examples",
                    f"{split} meta {meta}: {sorted(got & forbidden)[:6]}")
            stats["metadata_selections_checked"] += 1
    stats["c11_evaluations"] += 1


ORACLES = {"C04": oracle_c04, "C08": oracle_c08, "C10": oracle_c10,
           "C11": oracle_c11}


# ------------------------------------------------------------------- driver
def run_history(case: dict, oracles, after_session=None, chunk: int = 0,
                short_read: bool = False,
                tolerate_rejected_good: bool = False) -> dict:
    """Run case["hist"]; evaluate the selected oracles after every completed
    session.  Returns the result dict of the runner protocol."""
    hist = case["hist"]
    stats = collections.Counter()
    probes = collections.Counter()
    faults = collections.Counter()
    out = {"ok": True, "vclass": None, "detail": "", "key": {}}
    scratch = fslayer.new_scratch("sess")
    root = os.path.join(scratch, "outer", "root")
    os.makedirs(os.path.dirname(root))
    rng = random.Random(case["sched_seed"])
    sc = S.Sched(rng, policy=case.get("policy", "random"),
                 policy_param=case.get("policy_param", 0),
                 choices=case.get("choices"),
                 max_steps=case.get("max_steps", 200000))
    fs = fslayer.FS(scratch, random.Random(case["sched_seed"] ^ 0xF5),
                    chunk=chunk, short_read=short_read)
    fs.keep_log = False
    completed = 0
    try:
        with dsgen.seams(hist["name_seed"], hist.get("clock", "monotone")), \
                fs, sc:
            hr = dsgen.HistoryRunner(
                hist, root, pool_factory=lambda ses: simexec.SimPool)
            hr.tolerate_rejected_good = tolerate_rejected_good
            try:
                hr.create()
                if "C08" in oracles and case.get("try_create", True):
                    oracle_c08_create(hr, stats)
                for k, ses in enumerate(hist["sessions"]):
                    probes["session_" + ses["kind"]] += 1
                    if ses["kind"] == "sub":
                        probes["sub_depth_%d" % (ses["rel"].count("/") + 1)] += 1
                    try:
                        hr.run_session(k)
                    except (S.SimDeadlock, S.SimStepLimit, S.SimAbort):
                        raise
                    except Exception as e:  # pylint: disable=broad-except
                        hr.model.abort()
                        probes["session_raised"] += 1
                        if "C08" in oracles:
                            import traceback
                            tb = traceback.extract_tb(e.__traceback__)
                            where = next(
                                (f"{os.path.basename(fr.filename)}:{fr.name}"
                                 for fr in reversed(tb)
                                 if "/sedpack/" in fr.filename), "?")
                            raise Violation(
                                "C08", "session_raised",
                                f"session {k} ({ses['kind']} "
                                f"{ses.get('rel', '')}) raised "
                                f"{type(e).__name__}: {str(e)[:200]} at "
                                f"{where}",
                                key={"exception": type(e).__name__,
                                     "where": where}) from e
                        break
                    completed += 1
                    if hr.rejected:
                        probes["rejected_write_caught"] += len(hr.rejected)
                        hr.rejected.clear()
                    if ses["kind"] == "multi" and not ses.get(
                            "single_process"):
                        probes["multi_under_simpool"] += 1
                    with fs.suspended():
                        for name in oracles:
                            ORACLES[name](hr, stats)
                        if after_session is not None:
                            after_session(hr, k, stats, probes)
                if "C08" in oracles and completed and case.get(
                        "try_create", True):
                    oracle_c08_create(hr, stats)
            except Violation as v:
                out.update(ok=False, vclass=v.vclass, detail=v.detail,
                           key=dict(v.key, engine="E-sess",
                                    fmt=hist["structure"]["fmt"]))
            except S.SimDeadlock as e:
                out.update(ok=False, vclass="deadlock", detail=str(e),
                           key={"engine": "E-sess"})
            except S.SimStepLimit as e:
                out.update(ok=False, vclass="no_termination", detail=str(e),
                           key={"engine": "E-sess"})
    finally:
        shutil.rmtree(scratch, ignore_errors=True)
    stats["sessions_completed"] += completed
    stats["scheduler_decisions"] += sc.steps
    stats["fs_effects"] += fs.n_effects
    if completed == len(hist["sessions"]):
        probes["history_ran_to_completion"] += 1
    probes.update(sc.probes)
    faults.update(fs.faults)
    h = hashlib.sha1(sc.digest().encode())
    h.update(repr(sorted(stats.items())).encode())
    out.update({
        "digest": h.hexdigest(),
        "nontrivial": completed >= 1 and (sc.multi_decisions > 0 or
                                          len(hist["sessions"]) > 1 or
                                          fs.n_effects > 20),
        "stats": dict(stats), "probes": dict(probes), "faults": dict(faults),
        "sample": {"structure": hist["structure"],
                   "sessions": [
                       {k: (v if k not in ("writes", "writers") else
                            (len(v) if k == "writes" else [len(x) for x in v]))
                        for k, v in s.items()} for s in hist["sessions"]],
                   "fs_effects": fs.n_effects, "decisions": sc.steps},
    })
    if not out["ok"] and "choices" not in case:
        case["choices"] = list(sc.choices_out)
    return out


def shrink_history(case: dict):
    """Candidates: drop a session, drop writes, drop metadata, fewer writers,
    simpler structure."""
    import copy
    hist = case["hist"]

    def variant(h):
        c = dict(case)
        c.pop("choices", None)
        c["hist"] = h
        return c

    ses = hist["sessions"]
    for k in range(len(ses) - 1, -1, -1):
        if len(ses) > 1:
            h = copy.deepcopy(hist)
            del h["sessions"][k]
            yield variant(h)
    for k, s in enumerate(ses):
        if s["kind"] == "multi":
            if len(s["writers"]) > 1:
                for w in range(len(s["writers"])):
                    h = copy.deepcopy(hist)
                    del h["sessions"][k]["writers"][w]
                    yield variant(h)
            for w, writes in enumerate(s["writers"]):
                if writes:
                    h = copy.deepcopy(hist)
                    h["sessions"][k]["writers"][w] = writes[:len(writes) // 2]
                    yield variant(h)
            if not s.get("single_process"):
                h = copy.deepcopy(hist)
                h["sessions"][k]["single_process"] = True
                yield variant(h)
        else:
            writes = s["writes"]
            if len(writes) > 1:
                h = copy.deepcopy(hist)
                h["sessions"][k]["writes"] = writes[:len(writes) // 2]
                yield variant(h)
                h = copy.deepcopy(hist)
                h["sessions"][k]["writes"] = writes[len(writes) // 2:]
                yield variant(h)
            if len(writes) >= 1:
                for j in range(len(writes)):
                    h = copy.deepcopy(hist)
                    del h["sessions"][k]["writes"][j]
                    yield variant(h)
            if s["kind"] == "sub" and "/" in s["rel"]:
                h = copy.deepcopy(hist)
                h["sessions"][k]["rel"] = s["rel"].rsplit("/", 1)[0]
                yield variant(h)
        if s.get("reopen"):
            h = copy.deepcopy(hist)
            h["sessions"][k]["reopen"] = False
            yield variant(h)
    st = hist["structure"]
    if len(st["attrs"]) > 1:
        h = copy.deepcopy(hist)
        h["structure"]["attrs"] = [a for a in st["attrs"] if a["name"] == "id"]
        yield variant(h)
    if st["hashes"]:
        h = copy.deepcopy(hist)
        h["structure"]["hashes"] = []
        yield variant(h)
    if st["compression"]:
        h = copy.deepcopy(hist)
        h["structure"]["compression"] = ""
        yield variant(h)
    if len(hist["splits"]) > 1:
        h = copy.deepcopy(hist)
        keep = hist["splits"][0]
        h["splits"] = [keep]
        for s in h["sessions"]:
            for w in (s.get("writes") or []):
                w["split"] = keep
            for ws in (s.get("writers") or []):
                for w in ws:
                    w["split"] = keep
        yield variant(h)
