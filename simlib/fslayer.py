"""Instrumented file system seam.

Real files on tmpfs; `open`, `os.replace/rename/mkdir/unlink/rmdir/remove`
are wrapped.  For paths under the run's scratch area every operation is an
*effect*: it is appended to the effect log, offered to the engine's hooks
(crash oracle, monitors) and is a scheduler yield point.  Files opened for
writing get a chunking raw layer, so torn states are real instants of the run.
"""
from __future__ import annotations

import builtins
import contextlib
import io
import os
import shutil
import weakref

from simlib import sched as S

_REAL = {
    "open": builtins.open,
    "io_open": io.open,
    "replace": os.replace,
    "rename": os.rename,
    "mkdir": os.mkdir,
    "unlink": os.unlink,
    "remove": os.remove,
    "rmdir": os.rmdir,
    "stat": os.stat,
}

_ACTIVE: "FS | None" = None
_COUNTER = [0]


class SimCrash(BaseException):
    """The simulated process was killed: nothing it does reaches the disk."""


def real_open(*a, **kw):
    return _REAL["open"](*a, **kw)


def new_scratch(tag: str = "run") -> str:
    _COUNTER[0] += 1
    path = f"/dev/shm/verif-{os.getpid()}-{_COUNTER[0]}-{tag}"
    shutil.rmtree(path, ignore_errors=True)
    os.makedirs(path)
    return path


class ChunkingFileIO(io.FileIO):
    """Raw file whose write() accepts only a seeded chunk at a time."""

    def __init__(self, fs: "FS", path: str, mode: str) -> None:
        super().__init__(path, mode)
        self._fs = fs
        self._vpath = path
        self._killed = False
        fs.open_files.add(self)

    def write(self, b) -> int:  # type: ignore[override]
        fs = self._fs
        mv = memoryview(b).cast("B")
        n = len(mv)
        if self._killed:
            return n  # buffered bytes of a killed process never reach the disk
        fs.fallible("write", self._vpath)
        k = fs.chunk_len(n)
        written = super().write(mv[:k])
        fs.effect("write", self._vpath, written)
        return written

    def close(self) -> None:
        if not self.closed:
            super().close()
            if not self._killed:
                self._fs.effect("close_w", self._vpath, 0)


class ShortReadFileIO(io.FileIO):
    """Raw reader returning seeded short counts (legal for read(2))."""

    def __init__(self, fs: "FS", path: str) -> None:
        super().__init__(path, "rb")
        self._fs = fs

    def readinto(self, b) -> int:  # type: ignore[override]
        mv = memoryview(b).cast("B")
        n = len(mv)
        if n <= 1:
            return super().readinto(mv)
        k = self._fs.short_len(n)
        got = super().readinto(mv[:k])
        if got and got < n:
            self._fs.faults["short_read"] = self._fs.faults.get(
                "short_read", 0) + 1
        return got


class FS:
    """One per run.  Use as a context manager."""

    def __init__(self, scratch: str, rng, chunk: int = 0,
                 short_read: bool = False, track_reads: bool = True,
                 track_stat: bool = False) -> None:
        self.scratch = os.path.realpath(scratch)
        self.rng = rng
        self.chunk = chunk  # 0 = whole writes; >0 fixed; <0 random up to -chunk
        self.short_read = short_read
        self.track_reads = track_reads
        self.track_stat = track_stat
        self.stat_hooks: list = []
        self.effects: list[tuple] = []
        self.hooks: list = []
        self.read_hooks: list = []
        self.suspend = 0
        self.faults: dict[str, int] = {}
        self.n_effects = 0
        self.keep_log = True
        self.in_hook = False
        self.fail_reads: dict[str, int] = {}  # rel path -> errno to raise
        self.dead = False  # the simulated writer process has been killed
        self.open_files = weakref.WeakSet()
        # write-side I/O errors (disk full, EIO): the `at`-th fallible
        # operation (write chunk, create, rename, mkdir) counted from arming
        # and the `burst - 1` following ones fail with `errno`
        self.write_fault: dict | None = None
        self.fallible_ops = 0

    # ------------------------------------------------------------ plumbing
    def inside(self, path) -> bool:
        try:
            p = os.fspath(path)
        except TypeError:
            return False
        if isinstance(p, bytes):
            p = os.fsdecode(p)
        if not isinstance(p, str):
            return False
        ap = os.path.abspath(p)
        return ap == self.scratch or ap.startswith(self.scratch + os.sep) or \
            os.path.realpath(ap).startswith(self.scratch + os.sep)

    def rel(self, path) -> str:
        ap = os.path.abspath(os.fspath(path))
        if ap.startswith(self.scratch):
            return ap[len(self.scratch):].lstrip(os.sep)
        rp = os.path.realpath(ap)
        if rp.startswith(self.scratch):
            return rp[len(self.scratch):].lstrip(os.sep)
        return ap

    def chunk_len(self, n: int) -> int:
        c = self.chunk
        if c == 0 or n <= 1:
            return n
        if c > 0:
            return min(n, c)
        return min(n, self.rng.randrange(1, -c + 1))

    def short_len(self, n: int) -> int:
        r = self.rng.random()
        if r < 0.3:
            return n
        if r < 0.5:
            return 1
        return self.rng.randrange(1, n + 1)

    def fallible(self, kind: str, path) -> None:
        wf = self.write_fault
        if wf is None or self.suspend or _ACTIVE is not self:
            return
        self.fallible_ops += 1
        if wf["at"] <= self.fallible_ops < wf["at"] + wf["burst"]:
            err = wf["errno"]
            name = "write_errno_%d" % err
            self.faults[name] = self.faults.get(name, 0) + 1
            wf["fired"] = wf.get("fired", 0) + 1
            wf.setdefault("first", (kind, self.rel(path)))
            s = S.current()
            if s is not None:
                s.log("fs", s.cur.tid, "fail_" + kind, self.rel(path), err)
            raise OSError(err, os.strerror(err), os.fspath(path))

    def kill(self) -> None:
        """Process death: from now on no operation of the (dead) process
        reaches the disk; data buffered in its open files is lost."""
        self.dead = True
        for f in list(self.open_files):
            f._killed = True  # pylint: disable=protected-access

    def revive(self) -> None:
        """A new process starts on whatever is on disk."""
        self.dead = False

    def _check_alive(self, path) -> None:
        if self.dead and not self.suspend and self.inside(path):
            raise SimCrash()

    @contextlib.contextmanager
    def suspended(self):
        self.suspend += 1
        try:
            yield
        finally:
            self.suspend -= 1

    def effect(self, kind: str, path, detail) -> None:
        if self.suspend or _ACTIVE is not self:
            return  # (a finaliser of a file object of an earlier run)
        self.n_effects += 1
        s = S.current()
        tid = s.cur.tid if s is not None else 0
        rel = self.rel(path)
        ev = (self.n_effects, tid, kind, rel, detail)
        if self.keep_log:
            self.effects.append(ev)
        if s is not None:
            s.log("fs", tid, kind, rel, detail)
        if self.hooks and not self.in_hook:
            self.in_hook = True
            self.suspend += 1
            try:
                for h in self.hooks:
                    h(ev)
            finally:
                self.suspend -= 1
                self.in_hook = False
        if s is not None:
            s.yield_("fs." + kind)

    # -------------------------------------------------------------- wrappers
    def _open(self, file, mode="r", buffering=-1, encoding=None, errors=None,
              newline=None, closefd=True, opener=None):
        if (self.suspend or isinstance(file, int) or opener is not None or
                not self.inside(file)):
            return _REAL["open"](file, mode, buffering, encoding, errors,
                                 newline, closefd, opener)
        path = os.fspath(file)
        if self.dead:
            raise SimCrash()
        writing = any(c in mode for c in "wax+")
        binary = "b" in mode
        if writing:
            raw_mode = mode.replace("b", "").replace("t", "")
            existed = os.path.exists(path)
            if not existed:
                self.fallible("create", path)
            raw = ChunkingFileIO(self, path, raw_mode)
            self.effect("open_w", path, "trunc" if existed and
                        "w" in mode else "new" if not existed else "keep")
            if buffering == 0:
                if not binary:
                    raise ValueError("can't have unbuffered text I/O")
                return raw
            bufsize = buffering if buffering > 1 else io.DEFAULT_BUFFER_SIZE
            if "+" in raw_mode:
                buf = io.BufferedRandom(raw, bufsize)
            else:
                buf = io.BufferedWriter(raw, bufsize)
            if binary:
                return buf
            text = io.TextIOWrapper(buf, encoding or "utf-8", errors, newline,
                                    line_buffering=(buffering == 1))
            text.mode = mode
            return text
        # reading
        if self.fail_reads:
            err = self.fail_reads.get(self.rel(path))
            if err:
                self.faults["read_errno_%d" % err] = self.faults.get(
                    "read_errno_%d" % err, 0) + 1
                s = S.current()
                if s is not None:
                    s.yield_("fs.open_r.fail")
                raise OSError(err, os.strerror(err), path)
        if self.track_reads:
            self.read_event(path)
        if self.short_read and binary and buffering == 0:
            return ShortReadFileIO(self, path)
        return _REAL["open"](file, mode, buffering, encoding, errors, newline,
                             closefd, opener)

    def read_event(self, path) -> None:
        if self.suspend or _ACTIVE is not self:
            return
        s = S.current()
        rel = self.rel(path)
        if s is not None:
            s.log("fs", s.cur.tid, "open_r", rel)
        for h in self.read_hooks:
            h(rel, os.fspath(path))
        if s is not None:
            s.yield_("fs.open_r")

    def _replace(self, src, dst, **kw):
        self._check_alive(dst)
        if self.inside(dst):
            self.fallible("replace", dst)
        r = _REAL["replace"](src, dst, **kw)
        if not kw and self.inside(dst):
            self.effect("replace", dst, self.rel(src))
        return r

    def _rename(self, src, dst, **kw):
        self._check_alive(dst)
        if self.inside(dst):
            self.fallible("replace", dst)
        r = _REAL["rename"](src, dst, **kw)
        if not kw and self.inside(dst):
            self.effect("replace", dst, self.rel(src))
        return r

    def _mkdir(self, path, *a, **kw):
        self._check_alive(path)
        if self.inside(path) and not os.path.isdir(path):
            self.fallible("mkdir", path)
        r = _REAL["mkdir"](path, *a, **kw)
        if "dir_fd" not in kw and self.inside(path):
            self.effect("mkdir", path, 0)
        return r

    def _unlink(self, path, **kw):
        self._check_alive(path)
        r = _REAL["unlink"](path, **kw)
        if not kw and self.inside(path):
            self.effect("unlink", path, 0)
        return r

    def _rmdir(self, path, **kw):
        self._check_alive(path)
        r = _REAL["rmdir"](path, **kw)
        if not kw and self.inside(path):
            self.effect("rmdir", path, 0)
        return r

    def _stat(self, path, *a, **kw):
        r = None
        try:
            r = _REAL["stat"](path, *a, **kw)
            return r
        finally:
            # existence checks are scheduling points: check-then-act races on
            # the shared directory tree need a switch right here
            if (not self.suspend and _ACTIVE is self and not a and
                    "dir_fd" not in kw and not isinstance(path, int)):
                s = S.current()
                if (s is not None or self.stat_hooks) and self.inside(path):
                    for h in self.stat_hooks:
                        h(self.rel(path), os.fspath(path))
                    if s is not None:
                        s.yield_("fs.stat")

    def __enter__(self) -> "FS":
        global _ACTIVE
        assert _ACTIVE is None, "nested FS layers"
        _ACTIVE = self
        builtins.open = self._open
        io.open = self._open
        os.replace = self._replace
        os.rename = self._rename
        os.mkdir = self._mkdir
        os.unlink = self._unlink
        os.remove = self._unlink
        os.rmdir = self._rmdir
        if self.track_stat:
            os.stat = self._stat
        try:
            import aiofiles.threadpool as atp
            self._atp = atp
            self._atp_saved = atp.sync_open
            atp.sync_open = self._open
        except ImportError:  # pragma: no cover
            self._atp = None
        return self

    def __exit__(self, *exc) -> bool:
        global _ACTIVE
        # finalise file objects leaked by this run (e.g. left open by an
        # exception) now, silently, rather than inside a later run
        self.suspend += 1
        import gc
        gc.collect()
        builtins.open = _REAL["open"]
        io.open = _REAL["io_open"]
        os.replace = _REAL["replace"]
        os.rename = _REAL["rename"]
        os.mkdir = _REAL["mkdir"]
        os.unlink = _REAL["unlink"]
        os.remove = _REAL["remove"]
        os.rmdir = _REAL["rmdir"]
        os.stat = _REAL["stat"]
        if self._atp is not None:
            self._atp.sync_open = self._atp_saved
        _ACTIVE = None
        return False
