"""Entry point: ./check <ID> quick|thorough | replay <file> | digests ..."""
import os
import sys

HERE = os.path.dirname(os.path.abspath(__file__))
VERIF = os.path.dirname(HERE)


def _reexec_if_needed() -> None:
    want = {
        "PYTHONHASHSEED": os.environ.get("PYTHONHASHSEED", "0"),
        "TF_CPP_MIN_LOG_LEVEL": "3",
        "PYTHONDONTWRITEBYTECODE": "1",
        "TF_ENABLE_ONEDNN_OPTS": "0",
        "CUDA_VISIBLE_DEVICES": "",
        "SEDPACK_VERIF": "1",
        "TQDM_DISABLE": "1",
        "RUST_BACKTRACE": "0",
        "PYTHONWARNINGS": "ignore",
    }
    # TensorFlow's autograph drops a generated source file per traced function
    # into the temp directory: give every check its own, removed at exit
    want["TMPDIR"] = os.environ.get("VERIF_TMPDIR") or \
        f"/dev/shm/verif-tmp-{os.getpid()}"
    if all(os.environ.get(k) == v for k, v in want.items()):
        return
    env = dict(os.environ)
    env.update(want)
    os.execve(sys.executable, [sys.executable] + sys.argv, env)


def main() -> int:
    _reexec_if_needed()
    tmpdir = os.environ["TMPDIR"]
    os.makedirs(tmpdir, exist_ok=True)
    if not os.environ.get("VERIF_TMPDIR"):
        # sub-processes of this check share (and do not remove) the directory
        os.environ["VERIF_TMPDIR"] = tmpdir
        import atexit
        import shutil
        atexit.register(shutil.rmtree, tmpdir, True)
        # a second temporary directory on another file system than the
        # scratch datasets (/dev/shm): see dsgen.seams
        other = f"/var/tmp/verif-otherfs-{os.getpid()}"
        try:
            os.makedirs(other, exist_ok=True)
            os.environ["VERIF_OTHERFS_TMP"] = other
            atexit.register(shutil.rmtree, other, True)
        except OSError:
            os.environ["VERIF_OTHERFS_TMP"] = "-"  # knob unavailable
    # `python simlib/main.py` puts simlib/ first on sys.path; we want /verif.
    sys.path[0] = VERIF
    import warnings
    warnings.filterwarnings("ignore")
    from simlib import runner
    argv = sys.argv[1:]
    if not argv:
        print("usage: check <ID> quick|thorough | all [tier] | replay <file> | "
              "selftest-determinism [N ids...] | selftest-sensitivity [ids]")
        return 2
    if argv[0] == "selftest-determinism":
        import subprocess
        return subprocess.call([os.path.join(VERIF, "tools",
                                             "selftest_determinism.sh")] +
                               argv[1:])
    if argv[0] == "selftest-sensitivity":
        import subprocess
        return subprocess.call([os.path.join(VERIF, "tools", "mutants.sh")] +
                               argv[1:])
    if argv[0] == "all":
        import json
        import subprocess
        tier = argv[1] if len(argv) > 1 else "quick"
        with open(os.path.join(VERIF, "MANIFEST.json"), encoding="utf-8") as f:
            ids = [c["property_id"] for c in json.load(f)["checks"]]
        worst = 0
        for i in ids:
            rc = subprocess.call([sys.executable, os.path.abspath(__file__),
                                  i, tier])
            worst = max(worst, rc)
        return worst
    if argv[0] == "replay":
        return runner.cmd_replay(argv[1])
    if argv[0] == "runcase":
        import json
        mod = runner.load_prop(argv[1])
        if hasattr(mod, "setup"):
            mod.setup("quick", build=False)
        runner.limit_memory()
        with open(argv[2], encoding="utf-8") as f:
            case = json.load(f)
        res = runner.run_one(mod, case, 3600.0)
        print("RUNCASE", res.get("ok"), res.get("vclass"))
        keep = {k: res.get(k) for k in ("ok", "vclass", "detail", "key",
                                       "digest", "nontrivial", "stats",
                                       "faults", "probes", "harness_error")
                if res.get(k) is not None}
        print("RUNCASE_JSON " + json.dumps(keep, default=str))
        return 0
    if argv[0] == "digests":
        return runner.cmd_digests(argv[1], argv[2], argv[3])
    tier = argv[1] if len(argv) > 1 else os.environ.get("VERIF_TIER", "quick")
    return runner.cmd_check(argv[0], tier)


if __name__ == "__main__":
    sys.exit(main())
