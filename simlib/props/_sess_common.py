"""Shared pieces of the E-sess based property modules."""
import random

from simlib import dsgen, esess

REAL_STUB = {
    "real": ["all of sedpack (Dataset, DatasetFiller, write_multiprocessing, "
             "merge_shard_infos, shard writers/readers, pydantic models) from "
             "the working tree", "tmpfs file system", "pickle boundary of the "
             "multi-writer call"],
    "simulated": ["multiprocessing.Pool (SimPool: baton threads, seeded "
                  "interleaving at every file-system effect, fork-style copy "
                  "of the `random` state)", "uuid4 / temp-name clock (seeded)",
                  "open/replace/mkdir seam (effect log + yield points)"],
    "uncontrolled": ["TensorFlow C++ TFRecord I/O (tfrec histories)"],
}
ASSUMPTIONS = [
    "one live dataset handle at a time (as the property states)",
    "SimPool models worker processes as threads with a pickle boundary; "
    "process-local state other than `random` is shared",
    "TFRecord file I/O happens inside TensorFlow and is not intercepted",
]
POLICIES = ["random", "random", "pct", "run_to_block", "round_robin"]


def budget(tier, quick=30.0, thorough=400.0):
    if tier == "quick":
        return {"wall_s": quick, "max_cases": 10**9, "case_timeout": 120.0}
    return {"wall_s": thorough, "max_cases": 10**9, "case_timeout": 180.0}


def base_case(rng: random.Random, hist: dict) -> dict:
    pol = rng.choice(POLICIES)
    return {"hist": hist, "sched_seed": rng.getrandbits(48), "policy": pol,
            "policy_param": rng.choice([1, 2, 3])}


def tfrec_share(tier):
    # tfrec is ~50x slower per shard decode; keep it a minority
    return ("fb", "fb", "fb", "npz", "npz", "npz", "tfrec") if tier == "quick" \
        else ("fb", "fb", "npz", "npz", "tfrec")
