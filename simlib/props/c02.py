"""C02 - exactly-once delivery (engines E-pool primitives + E-read interfaces)."""
from __future__ import annotations

import collections
import hashlib
import importlib.util
import os
import random

from simlib import bootstrap, dsgen, eread, sched as S, simloop

ID = "C02"
LEVEL = "exploration"
TECHNIQUE = ("deterministic simulation: buffering primitives and every "
             "iteration interface over generated datasets; LazyPool path on "
             "the seeded baton scheduler, executor path on a simulated "
             "executor, async path on a virtual-time event loop with seeded "
             "I/O completion order; Rust and tf.data observed uncontrolled")
RULE = ("two case families from sha256(VERIF_SEED:C02:i). prim: shuffle_buffer "
        "/ round_robin (sync+async) / round_robin(LazyPool.imap_unordered) "
        "over synthetic shards (lengths 1..5, short last), n in 0..14, T in "
        "1..6, buffer in {1,2,..,>n}. iface: generated dataset (1..3 splits, "
        "1..9+ shards, uneven last shard, nested lists from sub-directory and "
        "multi-writer sessions; fb/npz/tfrec), repeat=False, shuffle in "
        "{0,1,2,n,n+7}, file_parallelism in 1..shards+2, interface in {sync, "
        "conc, async (two concurrent consumers), rust, tfdata}. Oracle: "
        "multiset of yielded examples == multiset written to the split, "
        "byte-exact, counting process_record called once per yielded example. "
        "Histories on one handle: two passes alive at once advanced "
        "alternately, and staggered passes with non-nested lifetimes (a short "
        "split passed over three times during one long pass; sync, conc, "
        "rust). 45% of the concurrent cases add source-line pre-emption in "
        "every file below sedpack/io. "
        "Non-trivial = >1 runnable thread at some decision, or >=2 shards "
        "read; distinct = distinct SHA-1 of the event log / output order.")
ASSUMPTIONS = [
    "Rust reader threads and tf.data runtime threads are real and "
    "uncontrolled: for them only the schedule-independent multiset is "
    "asserted on observed executions",
    "SimExecutor is a stub of ThreadPoolExecutor (semantics from CPython docs)",
]
REAL_STUB = {
    "real": ["sedpack iteration code, itertools helpers, LazyPool/Collector, "
             "shard readers, aiofiles, asyncstdlib, Rust extension built from "
             "the working tree, tf.data"],
    "simulated": ["thread choice, queue.Queue, ThreadPoolExecutor, asyncio "
                  "loop + executor off-load, uuid4/clock, open() seam"],
    "uncontrolled": ["threads inside the Rust extension", "tf.data runtime"],
}

_IT = None


def itertools_mod():
    global _IT
    if _IT is None:
        spec = importlib.util.spec_from_file_location("verif_itertools",
                                                      bootstrap.ITERTOOLS_PY)
        _IT = importlib.util.module_from_spec(spec)
        spec.loader.exec_module(_IT)
    return _IT


def budget(tier):
    if tier == "quick":
        return {"wall_s": 40.0, "max_cases": 10**9, "case_timeout": 90.0}
    return {"wall_s": 480.0, "max_cases": 10**9, "case_timeout": 120.0}


def setup(tier, build=True):
    if build:
        bootstrap.build_rust()


def gen_case(rng, tier, index):
    if rng.random() < 0.45:
        T = rng.choice([1, 2, 2, 3, 4, 5, 6])
        n = rng.choice([0, 1, 2, 3, T, T + 1, 2 * T + 1, 2 * T + 2, 2 * T + 3,
                        rng.randrange(0, 15 if tier == "quick" else 40)])
        lens = [rng.randrange(1, 6) for _ in range(n)]
        if lens:
            lens[-1] = rng.randrange(1, lens[-1] + 1)
        total = sum(lens)
        return {"kind": "prim",
                "which": rng.choice(["shuffle", "rr", "pool_rr", "pool_rr",
                                     "shuffle_async", "rr_async"]),
                "lens": lens, "T": T,
                "b": rng.choice([1, 2, 3, max(1, n), n + 1, total + 3]),
                "seed": rng.getrandbits(32),
                "sched_seed": rng.getrandbits(48),
                "policy": rng.choice(S.POLICIES),
                "policy_param": rng.randrange(0, 4)}
    iface = rng.choice(["sync", "conc", "conc", "conc", "async", "async",
                        "rust", "tfdata" if rng.random() < 0.25 else "conc"])
    fmts = {"async": ("fb", "npz"), "rust": ("fb",),
            "tfdata": ("fb", "npz", "tfrec")}.get(
                iface, ("fb", "fb", "npz", "npz", "tfrec"))
    comp = rng.choice(dsgen.RUST_COMPRESSIONS) if iface == "rust" else None
    hist = eread.read_hist(rng, formats=fmts, compression=comp,
                           max_sessions=3)
    return {"kind": "iface", "hist": hist, "iface": iface,
            "shuffle_sel": rng.choice([0, 0, 1, 2, "n", "n+7"]),
            "fp_sel": rng.choice([1, 2, 3, "s", "s+2", "s-1"]),
            "seed": rng.getrandbits(32), "sched_seed": rng.getrandbits(48),
            "policy": rng.choice(S.POLICIES),
            "policy_param": rng.randrange(0, 4),
            "counter": rng.random() < 0.7,
            "batch": rng.choice([0, 0, 2, 3, 32]),
            "prefetch": rng.choice([1, 2, 5]),
            "overlap": rng.random() < 0.25,
            # overlapping passes with non-nested lifetimes (a short split is
            # passed over several times while a longer pass is under way)
            "stagger": rng.random() < 0.5,
            # the two overlapping passes read the SAME split, the later one
            # with the other kind of shuffling
            "overlap_same_split": rng.random() < 0.5,
            # tf.data: the returned object was iterated (partly) before
            "tf_reiterate": [rng.randrange(0, 5)
                             for _ in range(rng.choice([0, 1, 1, 2]))],
            # line-level pre-emption inside every sedpack.io source file
            "line": rng.random() < 0.45,
            "pattern": rng.getrandbits(30)}


# ------------------------------------------------------------------ prim
def run_prim(case):
    it = itertools_mod()
    lens, T, b = case["lens"], case["T"], case["b"]
    shards = []
    nxt = 0
    for ln in lens:
        shards.append(list(range(nxt, nxt + ln)))
        nxt += ln
    flat = [x for s in shards for x in s]
    random.seed(case["seed"])
    out = {"ok": True}
    h = hashlib.sha1()
    stats = collections.Counter()
    which = case["which"]
    got = []
    sc = None
    if which == "shuffle":
        got = list(it.shuffle_buffer(iter(flat), buffer_size=b))
    elif which == "rr":
        got = list(it.round_robin((iter(s) for s in shards), buffer_size=b))
    elif which in ("shuffle_async", "rr_async"):
        async def agen(xs):
            for x in xs:
                yield x

        async def main():
            res = []
            if which == "shuffle_async":
                src = it.shuffle_buffer_async(agen(flat), buffer_size=b)
            else:
                async def outer():
                    for s in shards:
                        yield agen(s)
                src = it.round_robin_async(outer(), buffer_size=b)
            async for x in src:
                res.append(x)
            return res

        got = simloop.SimLoop(random.Random(case["seed"])).run(main())
    elif which == "pool_rr":
        lp = bootstrap.sim_lazy_pool()
        sc = S.Sched(random.Random(case["sched_seed"]), policy=case["policy"],
                     policy_param=case["policy_param"],
                     choices=case.get("choices"), max_steps=60000)

        def f(i):
            s = S.current()
            if s is not None:
                s.yield_("func")
            return list(shards[i])

        with sc:
            try:
                with lp.LazyPool(T) as pool:
                    for x in it.round_robin(
                            pool.imap_unordered(f, range(len(shards))),
                            buffer_size=T):
                        got.append(x)
                sc.drain()
            except S.SimDeadlock as e:
                out.update(ok=False, vclass="deadlock", detail=str(e))
            except S.SimStepLimit as e:
                out.update(ok=False, vclass="no_termination", detail=str(e))
        stats["scheduler_decisions"] += sc.steps
        h.update(sc.digest().encode())
    if out["ok"] and collections.Counter(got) != collections.Counter(flat):
        miss = sorted((collections.Counter(flat) -
                       collections.Counter(got)).elements())
        extra = sorted((collections.Counter(got) -
                        collections.Counter(flat)).elements())
        out.update(ok=False, vclass="prim_wrong_multiset",
                   detail=f"{which} lens={lens} b={b} T={T}: missing "
                   f"{miss[:8]} duplicated/extra {extra[:8]}")
    h.update(repr(got).encode())
    out.update({
        "digest": h.hexdigest(),
        "nontrivial": len(flat) > 1,
        "stats": dict(stats, prim_runs=1),
        "probes": {"prim_" + which: 1,
                   "buffer_larger_than_input": int(b > len(flat))},
        "key": {"engine": "E-pool", "which": which},
        "sample": {"case": {k: v for k, v in case.items()
                            if not k.startswith("_")}, "output": got[:20]},
    })
    if not out["ok"] and sc is not None and "choices" not in case:
        case["choices"] = list(sc.choices_out)
    return out


# ----------------------------------------------------------------- iface
def resolve_opts(case, n_examples, n_shards):
    sh = case["shuffle_sel"]
    shuffle = {"n": max(1, n_examples), "n+7": n_examples + 7}.get(sh, sh)
    fp = case["fp_sel"]
    fp = {"s": max(1, n_shards), "s+2": n_shards + 2,
          "s-1": max(1, n_shards - 1)}.get(fp, fp)
    return {"repeat": False, "shuffle": shuffle, "fp": fp,
            "batch": case.get("batch", 0),
            "prefetch": case.get("prefetch", 1)}


def run_iface(case):
    hist = case["hist"]
    st = hist["structure"]
    iface = case["iface"]
    out = {"ok": True}
    stats = collections.Counter()
    probes = collections.Counter()
    h = hashlib.sha1()
    sc = None
    bootstrap.sedpack_io()
    if not eread.supports(iface, st):
        iface = "sync"
    with eread.ReadEnv(hist, case["seed"]) as env:
        splits = [s for s in hist["splits"] if env.model.ids(s)]
        if not splits:
            probes["empty_dataset"] += 1
            return {"ok": True, "digest": "empty", "nontrivial": False,
                    "probes": dict(probes), "stats": {}}
        random.seed(case["seed"])
        ds = env.open() if case["seed"] & 1 else env.hr.ds
        plan = splits[:2] if iface == "async" else splits[:1]
        tables = {s: env.shard_table(s) for s in plan}
        results = {}
        counters = {s: (eread.Counter(st["attrs"]) if case["counter"] and
                        iface != "tfdata" else None) for s in plan}
        optsd = {s: resolve_opts(case, len(env.model.ids(s)), len(tables[s]))
                 for s in plan}
        try:
            if iface == "async":
                res, loop = eread.consume_async(
                    ds, [(s, optsd[s]) for s in plan], st["attrs"],
                    case["sched_seed"],
                    counters=[counters[s] for s in plan] if case["counter"]
                    else None)
                for s, r in zip(plan, res):
                    results[s] = r
                stats["async_offloads"] += loop.offloads
                stats["virtual_seconds_x1000"] += int(loop.time() * 1000)
                h.update(repr(loop.trace).encode())
                if len(plan) > 1:
                    probes["two_concurrent_async_consumers"] += 1
            elif (iface in ("conc", "sync", "rust") and case.get("overlap")
                  and case.get("stagger") and st["fmt"] != "tfrec"):
                order = [plan[0]] + [s_ for s_ in sorted(
                    splits, key=lambda s: len(env.model.ids(s)))
                    if s_ != plan[0]]
                specs = []
                for j, s_ in enumerate((order * 3)[:3]):
                    tables.setdefault(s_, env.shard_table(s_))
                    optsd.setdefault(s_, resolve_opts(
                        case, len(env.model.ids(s_)), len(tables[s_])))
                    specs.append((iface, s_, optsd[s_], 1 if j == 0 else 3))
                done, err, sc = eread.run_staggered(
                    env, ds, specs, case["sched_seed"],
                    case.get("pattern", 3), policy=case["policy"])
                probes["staggered_passes_on_one_handle"] += 1
                stats["scheduler_decisions"] += sc.steps
                h.update(sc.digest().encode())
                if err:
                    out.update(ok=False, vclass="overlapping_passes_fail",
                               detail=f"{iface} (staggered): {err}")
                else:
                    for j, (_, s_, _, _) in enumerate(specs):
                        want_ = collections.Counter(env.model.ids(s_))
                        for n_, r_ in enumerate(done[j]):
                            seen_ = collections.Counter(i for i, _ in r_)
                            if seen_ != want_ and out["ok"]:
                                out.update(
                                    ok=False,
                                    vclass="overlapping_passes_interfere",
                                    detail=f"{iface} split {s_} (stream {j}, "
                                    f"pass {n_} of staggered passes on one "
                                    f"handle): yielded "
                                    f"{sorted(seen_.elements())[:10]} "
                                    f"expected "
                                    f"{sorted(want_.elements())[:10]}")
                    results[plan[0]] = done[0][0] if done[0] else []
                    counters[plan[0]] = None
            elif (iface in ("conc", "sync") and case.get("overlap") and
                  st["fmt"] != "tfrec"):
                # two passes of ONE handle alive at the same time, each with
                # its own per-example transformation
                s0 = plan[0]
                s1 = splits[1] if len(splits) > 1 else s0
                if case.get("overlap_same_split"):
                    s1 = s0
                    probes["overlapping_passes_same_split"] += 1
                c0, c1 = eread.Counter(st["attrs"]), eread.Counter(st["attrs"])
                tables.setdefault(s1, env.shard_table(s1))
                optsd.setdefault(s1, resolve_opts(
                    case, len(env.model.ids(s1)), len(tables[s1])))
                opts1 = optsd[s1]
                if s1 == s0:
                    opts1 = dict(opts1, shuffle=(
                        0 if opts1["shuffle"] else
                        len(env.model.ids(s1)) + 7))
                res, err, sc = eread.run_interleaved(
                    env, ds, [(iface, s0, optsd[s0], c0),
                              (iface, s1, opts1, c1)],
                    case["sched_seed"], case.get("pattern", 3),
                    policy=case["policy"])
                probes["overlapping_passes_on_one_handle"] += 1
                stats["scheduler_decisions"] += sc.steps
                h.update(sc.digest().encode())
                if err:
                    out.update(ok=False, vclass="overlapping_passes_fail",
                               detail=f"{iface}: {err}")
                else:
                    for which, (s_, c_, r_) in enumerate(
                            ((s0, c0, res[0]), (s1, c1, res[1]))):
                        seen_ = collections.Counter(i for i, _ in r_)
                        want_ = collections.Counter(env.model.ids(s_))
                        if seen_ != want_ or c_.calls != seen_:
                            out.update(
                                ok=False,
                                vclass="overlapping_passes_interfere",
                                detail=f"{iface} split {s_} (pass {which} of "
                                f"two interleaved passes on one handle): "
                                f"yielded {sorted(seen_.elements())[:10]} "
                                f"expected {sorted(want_.elements())[:10]}; "
                                f"its process_record saw "
                                f"{sorted(c_.calls.elements())[:10]}")
                            break
                    results[s0] = res[0]
                    counters[s0] = None
            elif iface == "conc":
                line = bool(case.get("line"))
                sc = S.Sched(random.Random(case["sched_seed"]),
                             policy=case["policy"],
                             policy_param=case["policy_param"],
                             choices=case.get("choices"),
                             max_steps=400000 if line else 200000,
                             trace_files=(os.path.join(
                                 bootstrap.SRC, "sedpack", "io") + os.sep,)
                             if line else (),
                             line_prob=(0.45 if case["seed"] & 4 else 0.15)
                             if line else 0.0)
                if line:
                    probes["conc_line_level_preemption"] += 1
                with eread.sim_bindings(ds), sc:
                    s = plan[0]
                    results[s] = [dsgen.canon(e, st["attrs"])
                                  for e in eread.make_iter(
                                      ds, "conc", s, optsd[s], counters[s])]
                    sc.drain()
                stats["scheduler_decisions"] += sc.steps
                h.update(sc.digest().encode())
                probes["conc_lazy_pool" if optsd[plan[0]]["shuffle"] else
                       "conc_executor"] += 1
            else:
                s = plan[0]
                if iface == "tfdata" and case.get("tf_reiterate"):
                    optsd[s] = dict(optsd[s],
                                    tf_reiterate=list(case["tf_reiterate"]))
                    probes["tfdata_object_iterated_again"] += 1
                results[s] = [dsgen.canon(e, st["attrs"])
                              for e in eread.make_iter(ds, iface, s, optsd[s],
                                                       counters[s])]
        except S.SimDeadlock as e:
            out.update(ok=False, vclass="deadlock", detail=str(e))
        except S.SimStepLimit as e:
            out.update(ok=False, vclass="no_termination", detail=str(e))
        except simloop.SimLoopDeadlock as e:
            out.update(ok=False, vclass="async_deadlock", detail=str(e))
        if out["ok"]:
            for s in plan:
                got = results[s]
                err = dsgen.check_examples(got, st["attrs"], st["fmt"])
                want = collections.Counter(env.model.ids(s))
                seen = collections.Counter(i for i, _ in got)
                opts = optsd[s]
                ctx = (f"{iface} {st['fmt']}/{st['compression']} split {s} "
                       f"shards={len(tables[s])} examples={sum(want.values())} "
                       f"shuffle={opts['shuffle']} fp={opts['fp']}")
                if err:
                    out.update(ok=False, vclass="example_corrupted",
                               detail=f"{ctx}: {err}")
                elif seen != want:
                    missing = sorted((want - seen).elements())
                    extra = sorted((seen - want).elements())
                    foreign = [i for i in extra if i not in want]
                    vclass = ("foreign_examples" if foreign else
                              "lost_examples" if missing else
                              "duplicated_examples")
                    out.update(ok=False, vclass=vclass,
                               detail=f"{ctx}: missing {missing[:8]} extra "
                               f"{extra[:8]}")
                elif counters[s] is not None and counters[s].calls != seen:
                    out.update(ok=False,
                               vclass="process_record_not_once_per_example",
                               detail=f"{ctx}: calls "
                               f"{sorted(counters[s].calls.items())[:6]}")
                if not out["ok"]:
                    break
                order = [i for i, _ in got]
                # tf.data shuffles with its own unseeded generator: only the
                # schedule-independent multiset enters the digest
                h.update(repr(sorted(order) if iface == "tfdata" else
                              order).encode())
                stats["examples_delivered"] += len(got)
                stats["shards_read"] += len(tables[s])
        probes["iface_" + iface] += 1
        probes["fmt_" + st["fmt"]] += 1
        nshards = sum(len(t) for t in tables.values())
        opts0 = optsd[plan[0]]
        if opts0["fp"] > len(tables[plan[0]]):
            probes["parallelism_above_shard_count"] += 1
        if opts0["shuffle"] > len(env.model.ids(plan[0])):
            probes["shuffle_above_dataset_size"] += 1
        if any(len(set(len(x["ids"]) for x in t)) > 1 for t in tables.values()):
            probes["uneven_shards"] += 1
        if any("/" in x["list"].split("/", 1)[1] for t in tables.values()
               for x in t):
            probes["nested_shard_lists"] += 1
    out.update({
        "digest": h.hexdigest(),
        "nontrivial": (sc is not None and sc.multi_decisions > 0) or
        nshards >= 2,
        "stats": dict(stats), "probes": dict(probes),
        "key": {"engine": "E-read", "iface": iface, "fmt": st["fmt"]},
        "sample": {"iface": iface, "structure": st, "opts": opts0,
                   "shards": [len(x["ids"]) for x in tables[plan[0]]],
                   "order": [i for i, _ in results.get(plan[0], [])][:16]},
    })
    if not out["ok"] and sc is not None and "choices" not in case:
        case["choices"] = list(sc.choices_out)
    return out


def run_case(case):
    if case["kind"] == "prim":
        return run_prim(case)
    return run_iface(case)


def shrink(case):
    if case["kind"] == "prim":
        lens = case["lens"]
        for i in range(len(lens)):
            c = dict(case)
            c.pop("choices", None)
            c["lens"] = lens[:i] + lens[i + 1:]
            yield c
        for i, ln in enumerate(lens):
            if ln > 1:
                c = dict(case)
                c.pop("choices", None)
                c["lens"] = lens[:i] + [ln - 1] + lens[i + 1:]
                yield c
        if case["T"] > 1:
            c = dict(case)
            c.pop("choices", None)
            c["T"] = case["T"] - 1
            yield c
        if case["b"] > 1:
            c = dict(case)
            c.pop("choices", None)
            c["b"] = case["b"] - 1
            yield c
        return
    from simlib import esess
    for c in esess.shrink_history(case):
        yield c
    for key, simpler in (("shuffle_sel", 0), ("fp_sel", 1), ("counter", False)):
        if case[key] != simpler:
            c = dict(case)
            c.pop("choices", None)
            c[key] = simpler
            yield c
    if case["fp_sel"] not in (1, 2):
        c = dict(case)
        c.pop("choices", None)
        c["fp_sel"] = 2
        yield c


def reach(agg):
    need = []
    p = agg["probes"]
    for name in ("prim_shuffle", "prim_rr", "prim_pool_rr", "prim_rr_async",
                 "prim_shuffle_async", "iface_sync", "iface_conc",
                 "iface_async", "conc_lazy_pool", "conc_executor",
                 "two_concurrent_async_consumers", "uneven_shards",
                 "nested_shard_lists", "parallelism_above_shard_count",
                 "shuffle_above_dataset_size",
                 "staggered_passes_on_one_handle",
                 "conc_line_level_preemption"):
        if not p.get(name):
            need.append(f"probe {name} never hit")
    if bootstrap.RUST_SOURCE not in ("none", "stub") and not p.get(
            "iface_rust"):
        need.append("rust interface never exercised")
    return need
