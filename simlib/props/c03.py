"""C03 - unshuffled iteration is deterministic and preserves write order."""
from __future__ import annotations

import collections
import hashlib
import random

from simlib import bootstrap, dsgen, eread, sched as S, simloop
from simlib.props import c02

ID = "C03"
LEVEL = "exploration"
TECHNIQUE = ("deterministic simulation: the shuffle=0 sequence of every "
             "iteration interface compared across parallelism, passes, reopen "
             "and seeded completion orders (SimExecutor tasks, async file "
             "reads, simulated writer processes); order oracle from the "
             "reference model of the writing sessions")
RULE = ("case = generated dataset (sessions: root / sub-directory / "
        "multi-writer on the simulated process pool with seeded worker "
        "interleaving) + 3..5 readers drawn from {sync, conc(fp), async(fp), "
        "rust(fp), tfdata} x fp in 1..shards+2 x second pass x reopened "
        "handle; oracle: all sequences identical; for each (session, split) "
        "the ids of that session appear in write order (multi-writer: writers "
        "in argument order). Cross-session order is not asserted. Non-trivial "
        "= >=2 shards; distinct = distinct SHA-1 of scheduler traces + "
        "sequences.")
ASSUMPTIONS = c02.ASSUMPTIONS
REAL_STUB = c02.REAL_STUB


def budget(tier):
    if tier == "quick":
        return {"wall_s": 40.0, "max_cases": 10**9, "case_timeout": 120.0}
    return {"wall_s": 480.0, "max_cases": 10**9, "case_timeout": 180.0}


def setup(tier, build=True):
    if build:
        bootstrap.build_rust()


def gen_case(rng, tier, index):
    fmt = rng.choice(["fb", "fb", "fb", "npz", "npz", "tfrec"])
    comp = rng.choice(dsgen.RUST_COMPRESSIONS) if fmt == "fb" and \
        rng.random() < 0.7 else None
    hist = eread.read_hist(rng, fmt=fmt, compression=comp, max_sessions=3,
                           kinds=("root", "sub", "multi", "multi"),
                           meta_modes=("none", "runs", "runs"),
                           simpool=True)
    hist["build_policy"] = rng.choice(S.POLICIES)
    extra = rng.random()
    split0 = hist["splits"][0]
    if extra < 0.12:
        # many shards relative to any read parallelism (more than 2T+2)
        eps = hist["structure"]["eps"]
        ids = iter(range(5 * 10**6, 6 * 10**6))
        hist["sessions"].append({"kind": "root", "reopen": False, "writes": [
            {"split": split0, "id": next(ids)}
            for _ in range(eps * rng.randrange(9, 24) + rng.randrange(0, eps))
        ]})
        hist["many_shards"] = True
    elif extra < 0.22:
        # one multi-writer call with more than ten writers
        ids = iter(range(5 * 10**6, 6 * 10**6))
        hist["sessions"].append({
            "kind": "multi", "reopen": False, "single_process": False,
            "pool_seed": rng.getrandbits(32),
            "writers": [[{"split": split0, "id": next(ids)}
                         for _ in range(rng.randrange(1, 3))]
                        for _ in range(rng.randrange(11, 14))]})
        hist["many_writers"] = True
    readers = []
    for _ in range(rng.randrange(3, 6)):
        readers.append({
            "iface": rng.choice(["sync", "conc", "conc", "async", "rust",
                                 "tfdata" if rng.random() < 0.2 else "conc"]),
            "fp_sel": rng.choice([1, 2, 3, "s", "s+2", "s-1"]),
            "reopen": rng.random() < 0.4,
            "tf_slow": rng.random() < 0.5,
            "batch": rng.choice([0, 0, 2, 3]),
            "sched_seed": rng.getrandbits(48),
            "policy": rng.choice(S.POLICIES),
            "policy_param": rng.randrange(0, 4)})
    # the same selection option for all readers of a case (order must be
    # kept under a selection too); metadata groups come from the history
    limit = rng.choice([None, None, None, 1, 2])
    return {"hist": hist, "readers": readers, "seed": rng.getrandbits(32),
            "limit": limit,
            # history on ONE handle: a shuffled pass before the unshuffled
            # ones; two unshuffled iterators alive at the same time
            "shuffled_first": rng.random() < 0.4,
            "interleave": rng.random() < 0.35,
            "pattern": rng.getrandbits(30)}


def run_case(case):
    hist = case["hist"]
    st = hist["structure"]
    out = {"ok": True}
    stats = collections.Counter()
    probes = collections.Counter()
    h = hashlib.sha1()
    bootstrap.sedpack_io()
    multi = 0
    nshards = 0
    with eread.ReadEnv(hist, case["seed"]) as env:
        if env.build_sched is not None:
            h.update(env.build_sched.digest().encode())
            stats["scheduler_decisions"] += env.build_sched.steps
            multi += env.build_sched.multi_decisions
            probes["writers_on_simulated_pool"] += 1
        if hist.get("many_shards"):
            probes["more_shards_than_any_read_window"] += 1
        if hist.get("many_writers"):
            probes["more_than_ten_writers_in_one_call"] += 1
        splits = [s for s in hist["splits"] if env.model.ids(s)]
        sample = {}
        for split in splits[:2]:
            table = env.shard_table(split)
            nshards += len(table)
            ds0 = env.hr.ds
            limit = case.get("limit")
            ref_kw = {"custom_metadata_type_limit": limit} if limit else {}
            fresh_ref = [i for i, _ in dsgen.read_sync(
                env.open(), split, st["attrs"], **ref_kw)]
            if case.get("shuffled_first"):
                # a shuffled pass on the kept handle must not disturb later
                # unshuffled passes on the same handle
                random.seed(case["seed"] ^ 0x51)
                list(ds0.as_numpy_iterator(split=split, repeat=False,
                                           shuffle=5, **ref_kw))
                probes["shuffled_pass_before_unshuffled"] += 1
            ref = [i for i, _ in dsgen.read_sync(ds0, split, st["attrs"],
                                                 **ref_kw)]
            if ref != fresh_ref:
                out.update(
                    ok=False, vclass="sequence_depends_on_handle_history",
                    detail=f"split {split}: a reopened handle yields "
                    f"{fresh_ref[:12]} but the kept handle (after a shuffled "
                    f"pass: {bool(case.get('shuffled_first'))}) yields "
                    f"{ref[:12]}", key={"engine": "E-read"})
                break
            # (tfrec: the concurrent iterator holds a `tf.device` scope open
            # across yields; two such generators advanced alternately leave
            # their scopes out of order and TensorFlow raises - overlapping
            # passes are not part of any property, so tfrec is left out)
            if case.get("interleave") and not limit and st["fmt"] != "tfrec":
                other = splits[1] if len(splits) > 1 else split
                oref = [i for i, _ in dsgen.read_sync(env.open(), other,
                                                      st["attrs"])]
                fp2 = max(1, min(2, len(table) - 1))
                res, err, isc = eread.run_interleaved(
                    env, ds0,
                    [("conc", split, {"repeat": False, "shuffle": 0,
                                      "fp": fp2}, None),
                     ("conc", other, {"repeat": False, "shuffle": 0,
                                      "fp": 1}, None)],
                    case["seed"] ^ 0x77, case.get("pattern", 5))
                stats["scheduler_decisions"] += isc.steps
                h.update(isc.digest().encode())
                probes["two_live_iterators_on_one_handle"] += 1
                got2 = [[i for i, _ in r] for r in res]
                if err or got2 != [ref, oref]:
                    out.update(
                        ok=False, vclass="interleaved_iterators_differ",
                        detail=f"two unshuffled concurrent iterators of one "
                        f"handle advanced alternately (splits {split}, "
                        f"{other}): {err or ''} expected {ref[:10]} / "
                        f"{oref[:10]} got {got2[0][:10]} / {got2[1][:10]}",
                        key={"engine": "E-read"})
                    break
            if limit:
                probes["selection_limit_option"] += 1
                full = [i for i, _ in dsgen.read_sync(ds0, split,
                                                      st["attrs"])]
                if len(ref) < len(full):
                    probes["selection_limit_drops_shards"] += 1
            # ---- write-order oracle (model)
            by_session = collections.defaultdict(list)
            for r in env.model.committed[split]:
                by_session[r.session].append(r.id)
            sess_of = {r.id: r.session for r in env.model.committed[split]}
            for ses, want in by_session.items():
                got = [i for i in ref if sess_of.get(i) == ses]
                if limit:
                    # under a selection: a subsequence in write order
                    want = [i for i in want if i in set(got)]
                if got != want:
                    kind = hist["sessions"][ses]["kind"]
                    out.update(
                        ok=False, vclass="write_order_not_preserved",
                        detail=f"split {split} session {ses} ({kind}): written "
                        f"{want[:12]} read {got[:12]}",
                        key={"engine": "E-read", "session_kind": kind})
                    break
            if not out["ok"]:
                break
            if len(by_session) > 1:
                probes["several_sessions_in_split"] += 1
            # ---- all readers agree
            for rd in case["readers"]:
                iface = rd["iface"] if eread.supports(rd["iface"], st) else \
                    "sync"
                fp = {"s": max(1, len(table)), "s+2": len(table) + 2,
                      "s-1": max(1, len(table) - 1)}.get(rd["fp_sel"],
                                                         rd["fp_sel"])
                opts = {"repeat": False, "shuffle": 0, "fp": fp,
                        "tf_slow": rd.get("tf_slow"),
                        "batch": rd.get("batch", 0)}
                if limit and iface in ("sync", "conc", "tfdata"):
                    opts["limit"] = limit
                elif limit:
                    iface = "sync"
                    opts["limit"] = limit
                ds = env.open() if rd["reopen"] else ds0
                seqs = []
                try:
                    for _pass in range(2):
                        if iface == "async":
                            res, loop = eread.consume_async(
                                ds, [(split, opts)], st["attrs"],
                                rd["sched_seed"] + _pass)
                            seqs.append([i for i, _ in res[0]])
                            stats["async_offloads"] += loop.offloads
                        elif iface == "conc":
                            sc = S.Sched(random.Random(rd["sched_seed"] +
                                                       _pass),
                                         policy=rd["policy"],
                                         policy_param=rd["policy_param"],
                                         max_steps=200000)
                            with eread.sim_bindings(ds), sc:
                                seqs.append([
                                    dsgen.canon(e, st["attrs"])[0]
                                    for e in eread.make_iter(ds, "conc", split,
                                                             opts)])
                                sc.drain()
                            stats["scheduler_decisions"] += sc.steps
                            multi += sc.multi_decisions
                            h.update(sc.digest().encode())
                        else:
                            seqs.append([
                                dsgen.canon(e, st["attrs"])[0]
                                for e in eread.make_iter(ds, iface, split,
                                                         opts)])
                except (S.SimDeadlock, S.SimStepLimit,
                        simloop.SimLoopDeadlock) as e:
                    out.update(ok=False, vclass="deadlock",
                               detail=f"{iface} fp={fp}: {e}",
                               key={"engine": "E-read", "iface": iface})
                    break
                probes["reader_" + iface] += 1
                if fp > len(table):
                    probes["parallelism_above_shard_count"] += 1
                if 1 < fp < len(table) and len(table) % fp:
                    probes["shards_not_multiple_of_parallelism"] += 1
                for pno, seq in enumerate(seqs):
                    if seq != ref:
                        out.update(
                            ok=False, vclass="sequence_differs",
                            detail=f"{iface} fp={fp} pass {pno} "
                            f"reopened={rd['reopen']} "
                            f"{st['fmt']}/{st['compression']} split {split} "
                            f"shards={[len(x['ids']) for x in table]}: "
                            f"expected {ref[:14]} got {seq[:14]}",
                            key={"engine": "E-read", "iface": iface})
                        break
                if not out["ok"]:
                    break
                stats["sequences_compared"] += len(seqs)
            if not out["ok"]:
                break
            h.update(repr(ref).encode())
            sample = {"split": split, "sequence": ref[:16],
                      "shards": [len(x["ids"]) for x in table]}
    out.setdefault("key", {"engine": "E-read"})
    out.update({
        "digest": h.hexdigest(), "nontrivial": nshards >= 2,
        "stats": dict(stats), "probes": dict(probes),
        "sample": {"structure": st, "readers": [
            {k: v for k, v in r.items() if k != "sched_seed"}
            for r in case["readers"]], **sample,
            "sessions": [s["kind"] for s in hist["sessions"]]},
    })
    return out


def shrink(case):
    from simlib import esess
    for c in esess.shrink_history(case):
        yield c
    rd = case["readers"]
    if len(rd) > 1:
        for i in range(len(rd)):
            c = dict(case)
            c["readers"] = rd[:i] + rd[i + 1:]
            yield c


def reach(agg):
    need = []
    p = agg["probes"]
    for name in ("reader_sync", "reader_conc", "reader_async",
                 "writers_on_simulated_pool", "several_sessions_in_split",
                 "parallelism_above_shard_count",
                 "shards_not_multiple_of_parallelism",
                 "shuffled_pass_before_unshuffled",
                 "two_live_iterators_on_one_handle"):
        if not p.get(name):
            need.append(f"probe {name} never hit")
    if bootstrap.RUST_SOURCE not in ("none", "stub") and not p.get(
            "reader_rust"):
        need.append("rust reader never exercised")
    return need
