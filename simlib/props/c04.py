"""C04 - shard-list metadata always accounts exactly for what is stored."""
from simlib import dsgen, esess
from simlib.props import _sess_common as C

ID = "C04"
LEVEL = "exploration"
TECHNIQUE = ("deterministic simulation: seeded histories of writing sessions "
             "(root / sub-directory / nested / multi-writer under a simulated "
             "process pool, reopen-or-keep) against an independent metadata "
             "walker")
RULE = ("case = history of 1..5 completed sessions over {root filler, "
        "sub-directory filler (fresh, reused, nested to depth 3), multi-writer "
        "call with 1..4 writers under SimPool interleavings}, per-session "
        "counts around multiples of examples_per_shard, random splits, handle "
        "reopened or kept; generated from sha256(VERIF_SEED:C04:i). After "
        "every session the tree is walked with plain json and every shard is "
        "decoded. Non-trivial = at least one session completed and (more than "
        "one session or a multi-candidate scheduling decision); distinct = "
        "distinct event digest (scheduler trace + fs effects + counters).")
ASSUMPTIONS = C.ASSUMPTIONS
REAL_STUB = C.REAL_STUB


def budget(tier):
    return C.budget(tier, 35.0, 420.0)


def _variable_size_attribute(rng, hist):
    """Sometimes declare a variable-size bytes/str attribute (npz, tfrec);
    rejected writes aimed at it only omit or misspell it (what other invalid
    values for such an attribute do is C18's business)."""
    st = hist["structure"]
    if st["fmt"] not in ("npz", "tfrec") or rng.random() >= 0.4:
        return
    st["attrs"].insert(rng.randrange(0, len(st["attrs"]) + 1),
                       {"name": "v0", "dtype": rng.choice(["bytes", "str"]),
                        "shape": []})
    at = [i for i, a in enumerate(st["attrs"]) if a["name"] == "v0"][0]
    for ses in hist["sessions"]:
        ws = list(ses.get("writes", []))
        for x in ses.get("writers", []):
            ws.extend(x)
        for w in ws:
            if w.get("bad"):
                if rng.random() < 0.5:
                    w["bad_attr"] = at
                if w["bad_attr"] % len(st["attrs"]) == at and w["bad"] not in (
                        "missing", "misspelt"):
                    w["bad"] = rng.choice(["missing", "misspelt"])


def gen_case(rng, tier, index):
    hist = dsgen.gen_history(rng, n_sessions=rng.randrange(1, 6 if tier == "quick" else 9),
                             formats=C.tfrec_share(tier),
                             meta_modes=("none", "none", "some"),
                             bad_rate=rng.choice([0, 0, 0.15]),
                             # only kinds every format rejects outright; what
                             # an *accepted* odd write does is C18's business
                             bad_kinds=("shape", "rank", "missing",
                                        "unsafe_dtype_fb", "extra_tfrec",
                                        "extra_npz_tfrec", "misspelt"))
    _variable_size_attribute(rng, hist)
    return C.base_case(rng, hist)


def run_case(case):
    res = esess.run_history(case, ["C04"])
    res.setdefault("faults", {})["rejected_writes_in_history"] = sum(
        1 for s in case["hist"]["sessions"] for w in s.get("writes", [])
        if w.get("bad"))
    return res


shrink = esess.shrink_history


def reach(agg):
    need = []
    p = agg["probes"]
    if p.get("history_ran_to_completion", 0) * 2 < agg["evaluations"]:
        need.append("fewer than half of the histories ran to completion")
    for name in ("session_root", "session_sub", "session_multi",
                 "multi_under_simpool", "rejected_write_caught", "sub_depth_2", "sub_depth_3"):
        if not p.get(name):
            need.append(f"probe {name} never hit")
    return need
