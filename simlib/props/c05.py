"""C05 - the integrity check accepts every committed dataset and detects every
modification."""
from __future__ import annotations

import collections
import hashlib
import os
import random
import shutil

from simlib import bootstrap, dsgen, esess, fslayer, sched as S, simexec
from simlib.esess import Violation
from simlib.props import _sess_common as C

ID = "C05"
LEVEL = "fault_enumeration"
TECHNIQUE = ("deterministic simulation with fault injection: stored-byte "
             "faults (bit flip, truncation, extension, deletion, sibling swap, "
             "rollback to an older installed version taken from the FS effect "
             "log) on every file reachable from the description of datasets "
             "produced by seeded session histories; check() must pass before "
             "and raise after each fault, on the kept and on a reopened handle")
RULE = ("case = history of 1..5 sessions (flat and nested trees up to depth 3 "
        "with several branches, multi-writer, 1..13 checksum algorithms incl. "
        "repeats). Positive: check() passes on the kept and a reopened handle "
        "after every session. Negative, after the last session, for EVERY "
        "reachable file (description, every shard list, every shard): "
        "deletion, emptying, extension by 1..3 bytes, every sibling swap "
        "candidate, every older version, plus bit flips and truncations at "
        "first/last/seeded offsets (quick) or at EVERY byte offset and every "
        "length (thorough). A fault counts only if the bytes really differ. "
        "In 30% of the cases two scheduler tasks verify at the same time "
        "(line-level pre-emption in utils.py / dataset_writing.py): the "
        "untouched dataset through two handles (both pass), then one shard "
        "with a flipped byte through ONE handle (both must raise). "
        "Non-trivial = at least one fault evaluated; distinct = event digest.")
ASSUMPTIONS = C.ASSUMPTIONS + [
    "at least one checksum algorithm is configured (the statement's premise)",
    "description-file faults are checked with the expected checksums supplied "
    "(current_metadata_checksums taken before the fault)",
]
REAL_STUB = C.REAL_STUB
SUBDIRS = ["a", "b", "a/c", "a/d", "b/e", "b/e/f", "b/g", "a/c/h"]


def budget(tier):
    b = C.budget(tier, 40.0, 600.0)
    if tier != "quick":
        b["case_timeout"] = 600.0  # exhaustive enumeration of a small dataset
    return b


def gen_case(rng, tier, index):
    k = rng.choice([1, 1, 2, 3, 13])
    hashes = [rng.choice(dsgen.HASHES) for _ in range(k)] if k < 13 else \
        rng.sample(dsgen.HASHES, 13)
    hist = dsgen.gen_history(
        rng, n_sessions=rng.randrange(1, 6),
        formats=("fb", "fb", "npz", "npz", "fb", "npz", "tfrec"),
        kinds=("root", "sub", "sub", "sub", "multi"),
        meta_modes=("none", "some"), hashes=hashes, subdirs=SUBDIRS,
        splits=rng.choice([None, ["train"], ["train"]]), max_writers=3)
    aligned = 0
    if rng.random() < 0.07:
        # shard files whose size is EXACTLY k x 128 KiB (the read block of the
        # digest loop): uncompressed npz, one example per shard, payload
        # length calibrated at run time
        aligned = rng.choice([1, 1, 2])
        st = hist["structure"]
        st.update(fmt="npz", compression="", eps=1, attrs=[
            {"name": "id", "dtype": "int64", "shape": []},
            {"name": "p0", "dtype": "uint8", "shape": [aligned * KIB128 - 900]}])
        split0 = hist["splits"][0]
        hist["sessions"] = [{"kind": "root", "reopen": False, "writes": [
            {"split": split0, "id": 1}, {"split": split0, "id": 2}]}]
    case = C.base_case(rng, hist)
    case["aligned"] = aligned
    case["fault_seed"] = rng.getrandbits(32)
    # two threads verify the (untouched) dataset at the same time, pre-empted
    # at source-line granularity inside the digest loop
    case["concurrent_check"] = rng.random() < 0.3
    case["exhaustive"] = tier == "thorough" and rng.random() < 0.5
    case["samples_per_file"] = 6 if tier == "quick" else 24
    return case


KIB128 = 128 * 1024


def calibrate_aligned(hist: dict, k: int) -> bool:
    """Adjust the payload length so that every shard file of the history is
    exactly k * 128 KiB long.  True when it worked."""
    attr = hist["structure"]["attrs"][1]
    probe = dict(hist, sessions=[dict(hist["sessions"][0],
                                      writes=hist["sessions"][0]["writes"][:1])])
    for _ in range(4):
        scratch = fslayer.new_scratch("calib")
        try:
            root = os.path.join(scratch, "root")
            with dsgen.seams(hist["name_seed"], "monotone"):
                hr = dsgen.HistoryRunner(probe, root, pool_factory=None)
                hr.create()
                hr.run_session(0)
            _, _, shards = dsgen.walk_tree(root)
            size = os.path.getsize(os.path.join(root, shards[0]["path"]))
        finally:
            shutil.rmtree(scratch, ignore_errors=True)
        if size == k * KIB128:
            return True
        attr["shape"] = [attr["shape"][0] + k * KIB128 - size]
        if attr["shape"][0] <= 0:
            return False
    return False


class Versions:
    def __init__(self, scratch):
        self.scratch = scratch
        self.by_path = collections.defaultdict(list)

    def hook(self, ev):
        _, _, kind, rel, _ = ev
        if kind == "replace" and rel.endswith(".json"):
            with fslayer.real_open(os.path.join(self.scratch, rel), "rb") as f:
                data = f.read()
            if not self.by_path[rel] or self.by_path[rel][-1] != data:
                self.by_path[rel].append(data)


def must_fail(fn) -> bool:
    try:
        fn()
    except Exception:  # pylint: disable=broad-except
        return True
    return False


def run_case(case):
    hist = case["hist"]
    st = hist["structure"]
    stats = collections.Counter()
    probes = collections.Counter()
    faults = collections.Counter()
    out = {"ok": True, "vclass": None, "detail": "", "key": {}}
    if case.get("aligned"):
        if calibrate_aligned(hist, case["aligned"]):
            probes["shard_size_exact_multiple_of_read_block"] += 1
        else:
            probes["block_alignment_failed"] += 1
    scratch = fslayer.new_scratch("integ")
    root = os.path.join(scratch, "outer", "root")
    os.makedirs(os.path.dirname(root))
    rng = random.Random(case["sched_seed"])
    frng = random.Random(case["fault_seed"])
    sc = S.Sched(rng, policy=case.get("policy", "random"),
                 policy_param=case.get("policy_param", 0),
                 choices=case.get("choices"), max_steps=300000)
    fs = fslayer.FS(scratch, random.Random(case["sched_seed"] ^ 0xF5))
    fs.keep_log = False
    vers = Versions(scratch)
    fs.hooks.append(vers.hook)
    completed = 0
    depth = 0
    try:
        with dsgen.seams(hist["name_seed"], hist.get("clock", "monotone")), \
                fs, sc:
            hr = dsgen.HistoryRunner(
                hist, root, pool_factory=lambda ses: simexec.SimPool)
            try:
                hr.create()
                for k in range(len(hist["sessions"])):
                    try:
                        hr.run_session(k)
                    except (S.SimDeadlock, S.SimStepLimit, S.SimAbort):
                        raise
                    except Exception:  # pylint: disable=broad-except
                        hr.model.abort()
                        probes["session_raised"] += 1
                        break
                    completed += 1
                    # ------------------------------ positive direction
                    with fs.suspended():
                        for who, ds in (("kept", hr.ds),
                                        ("reopened", hr.sio.Dataset(root))):
                            try:
                                ds.check(show_progressbar=False)
                                ds.check(
                                    show_progressbar=False,
                                    hash_checksums_values=ds.
                                    current_metadata_checksums())
                            except Exception as e:  # pylint: disable=broad-except
                                raise Violation(
                                    "C05", "check_rejects_committed_dataset",
                                    f"after session {k} "
                                    f"({hist['sessions'][k]['kind']} "
                                    f"{hist['sessions'][k].get('rel', '')}) on "
                                    f"the {who} handle: {type(e).__name__}: "
                                    f"{str(e)[:200]}",
                                    key={"handle": who}) from e
                        stats["positive_checks"] += 2
                if completed and case.get("concurrent_check"):
                    import sedpack.io.utils as su
                    utils_py = su.__file__
                    results = {}

                    def verifier(slot):
                        def run():
                            try:
                                hr.sio.Dataset(root).check(
                                    show_progressbar=False)
                                results[slot] = None
                            except S.SimAbort:
                                raise
                            except Exception as e:  # pylint: disable=broad-except
                                results[slot] = e
                        return run

                    sc.trace_files = frozenset({utils_py})
                    sc.line_prob = 0.4
                    try:
                        for slot in range(2):
                            sc.spawn(verifier(slot), name=f"verifier{slot}")
                        sc.drain("concurrent.check")
                    finally:
                        sc.trace_files = frozenset()
                        sc.line_prob = 0.0
                    probes["two_concurrent_checks"] += 1
                    bad = [e for e in results.values() if e is not None]
                    if bad:
                        raise Violation(
                            "C05", "check_rejects_committed_dataset",
                            f"two threads verifying the untouched dataset at "
                            f"the same time: {type(bad[0]).__name__}: "
                            f"{str(bad[0])[:200]}",
                            key={"handle": "concurrent"})
                    # ... and over a damaged shard: two threads verify through
                    # ONE handle at the same time, both must be told
                    _, _, shards_now = dsgen.walk_tree(root)
                    if shards_now and st["hashes"]:
                        import sedpack.io.dataset_writing as sdw
                        victim = os.path.join(root, shards_now[
                            case["fault_seed"] % len(shards_now)]["path"])
                        with fs.suspended():
                            with fslayer.real_open(victim, "rb") as f:
                                original = f.read()
                            if original:
                                pos = case["fault_seed"] % len(original)
                                damaged = (original[:pos] +
                                           bytes([original[pos] ^ 0x21]) +
                                           original[pos + 1:])
                                with fslayer.real_open(victim, "wb") as f:
                                    f.write(damaged)
                        if original:
                            shared = hr.sio.Dataset(root)
                            results = {}

                            def verifier2(slot):
                                def run():
                                    try:
                                        shared.check(show_progressbar=False)
                                        results[slot] = None
                                    except S.SimAbort:
                                        raise
                                    except Exception as e:  # pylint: disable=broad-except
                                        results[slot] = e
                                return run

                            sc.trace_files = frozenset({utils_py,
                                                        sdw.__file__})
                            sc.line_prob = 0.3
                            try:
                                for slot in range(2):
                                    sc.spawn(verifier2(slot),
                                             name=f"verifier{slot}")
                                sc.drain("concurrent.check.damaged")
                            finally:
                                sc.trace_files = frozenset()
                                sc.line_prob = 0.0
                                with fs.suspended():
                                    with fslayer.real_open(victim, "wb") as f:
                                        f.write(original)
                            probes["two_concurrent_checks_damaged"] += 1
                            faults["bitflip_under_two_verifiers"] += 1
                            unaware = [s_ for s_, e in sorted(results.items())
                                       if e is None]
                            if unaware or len(results) < 2:
                                raise Violation(
                                    "C05", "alteration_not_detected",
                                    f"shard {os.path.relpath(victim, root)} "
                                    f"with one flipped byte, two threads "
                                    f"verifying through one handle at the "
                                    f"same time: verifier(s) {unaware} "
                                    f"returned normally",
                                    key={"kind": "shard",
                                         "handle": "concurrent"})
                # ---------------------------------- negative direction
                if completed:
                    with fs.suspended():
                        depth = negative(hr, vers, frng, case, stats, faults,
                                         probes)
            except Violation as v:
                out.update(ok=False, vclass=v.vclass, detail=v.detail,
                           key=dict(v.key, engine="E-sess", fmt=st["fmt"]))
            except S.SimDeadlock as e:
                out.update(ok=False, vclass="deadlock", detail=str(e),
                           key={"engine": "E-sess"})
    finally:
        shutil.rmtree(scratch, ignore_errors=True)
    stats["sessions_completed"] += completed
    stats["fs_effects"] += fs.n_effects
    probes["tree_depth_%d" % depth] += 1
    probes["algorithms_%s" % ("13" if len(st["hashes"]) >= 13 else
                              len(st["hashes"]))] += 1
    out.update({
        "digest": hashlib.sha1((sc.digest() + repr(sorted(stats.items())) +
                                repr(sorted(faults.items()))).encode()
                               ).hexdigest(),
        "nontrivial": sum(faults.values()) > 0,
        "stats": dict(stats), "probes": dict(probes), "faults": dict(faults),
        "sample": {"structure": st,
                   "sessions": [(s["kind"], s.get("rel", "")) for s in
                                hist["sessions"]],
                   "faults_injected": dict(faults),
                   "exhaustive_offsets": case["exhaustive"]},
    })
    if not out["ok"] and "choices" not in case:
        case["choices"] = list(sc.choices_out)
    return out


def negative(hr, vers, frng, case, stats, faults, probes) -> int:
    root, st = hr.root, hr.st
    scratch = vers.scratch
    info, lists, shards = dsgen.walk_tree(root)
    depth = max((rel.count("/") for rel in lists), default=0)
    expected_root = hr.ds.current_metadata_checksums()
    targets = [("description", "dataset_info.json")]
    targets += [("list", rel) for rel in lists]
    targets += [("shard", sh["path"]) for sh in shards]
    by_kind = collections.defaultdict(list)
    for kind, rel in targets:
        by_kind[kind].append(rel)
    # every byte offset / every length only for datasets small enough to
    # finish (a deterministic criterion, no wall clock): <= 5000 bytes in all
    total_bytes = sum(os.path.getsize(os.path.join(root, rel))
                      for _, rel in targets)
    exhaustive = bool(case["exhaustive"]) and total_bytes <= 5000

    def detected(kind: str) -> str | None:
        """None when both handles detect the alteration."""
        if kind == "description":
            if not must_fail(lambda: hr.ds.check(
                    show_progressbar=False,
                    hash_checksums_values=expected_root)):
                return "kept"

            def reopened():
                ds = hr.sio.Dataset(root)
                ds.check(show_progressbar=False,
                         hash_checksums_values=expected_root)

            if not must_fail(reopened):
                return "reopened"
            return None
        if not must_fail(lambda: hr.ds.check(show_progressbar=False)):
            return "kept"
        if not must_fail(lambda: hr.sio.Dataset(root).check(
                show_progressbar=False)):
            return "reopened"
        return None

    def inject(kind, rel, name, new_bytes, detail=""):
        full = os.path.join(root, rel)
        with fslayer.real_open(full, "rb") as f:
            orig = f.read()
        st0 = os.stat(full)
        if new_bytes is not None and new_bytes == orig:
            return  # not an alteration
        try:
            if new_bytes is None:
                os.unlink(full)
            else:
                with fslayer.real_open(full, "r+b") as f:
                    f.truncate(0)
                    f.write(new_bytes)
                # bytes change at rest: same inode, same time stamps (bit
                # rot, or a tool that restores mtime)
                os.utime(full, ns=(st0.st_atime_ns, st0.st_mtime_ns))
            faults[name] += 1
            stats["faults_evaluated"] += 1
            miss = detected(kind)
        finally:
            if os.path.exists(full):
                with fslayer.real_open(full, "r+b") as f:
                    f.truncate(0)
                    f.write(orig)
            else:
                with fslayer.real_open(full, "wb") as f:
                    f.write(orig)
            os.utime(full, ns=(st0.st_atime_ns, st0.st_mtime_ns))
        if miss:
            level = rel.count("/")
            raise Violation(
                "C05", "alteration_not_detected",
                f"{name} {detail} of {kind} file {rel} ({len(orig)} bytes) is "
                f"not detected by check() on the {miss} handle",
                key={"file_kind": kind, "fault": name, "handle": miss,
                     "deep": level >= 3})

    for kind, rel in targets:
        full = os.path.join(root, rel)
        with fslayer.real_open(full, "rb") as f:
            data = f.read()
        n = len(data)
        probes["target_%s_level_%d" % (kind, rel.count("/"))] += 1
        inject(kind, rel, "empty", b"")
        inject(kind, rel, "extend", data + frng.randbytes(frng.randrange(1, 4)))
        inject(kind, rel, "extend_newline", data + b"\n")
        # alterations a text-mode reader or a JSON parser does not see: line
        # endings and insignificant white space (whole file, one place)
        inject(kind, rel, "line_endings", data.replace(b"\n", b"\r\n"),
               "LF -> CRLF everywhere")
        nl = [i for i in range(n) if data[i:i + 1] == b"\n"]
        sp = [i for i in range(n) if data[i:i + 1] == b" "]
        if nl:
            i = frng.choice(nl)
            inject(kind, rel, "line_endings", data[:i] + b"\r" + data[i + 1:],
                   f"LF -> CR at offset {i}")
            i = frng.choice(nl)
            inject(kind, rel, "line_endings", data[:i] + b"\r" + data[i:],
                   f"CR inserted before the LF at offset {i}")
            probes["line_ending_alterations"] += 1
        if sp:
            i = frng.choice(sp)
            inject(kind, rel, "white_space", data[:i] + b"\t" + data[i + 1:],
                   f"blank -> tab at offset {i}")
            inject(kind, rel, "white_space", data[:i] + b" " + data[i:],
                   f"blank doubled at offset {i}")
        for off in ([frng.randrange(n) for _ in range(3)] if n else []):
            other = bytearray(data)
            other[off] = (other[off] + frng.randrange(1, 256)) % 256
            inject(kind, rel, "byte_replaced", bytes(other),
                   f"at offset {off}")
        if exhaustive:
            offsets = range(n)
            lengths = range(1, n)
        else:
            offsets = sorted({0, n - 1, n // 2} | {
                frng.randrange(n) for _ in range(case["samples_per_file"])})
            lengths = sorted({1, n - 1, n // 2} | {
                frng.randrange(1, n) for _ in range(case["samples_per_file"])
            }) if n > 2 else []
        for off in offsets:
            flipped = bytearray(data)
            flipped[off] ^= 1 << frng.randrange(8)
            inject(kind, rel, "bit_flip", bytes(flipped), f"at offset {off}")
        for ln in lengths:
            inject(kind, rel, "truncate", data[:ln], f"to {ln} bytes")
        # rollback to an older installed version of the same path
        srel = os.path.relpath(full, scratch)
        for old in vers.by_path.get(srel, [])[:-1][-3:]:
            inject(kind, rel, "rollback", old, "to an older version")
        # swap with a sibling of the same kind
        sibs = [r for r in by_kind[kind] if r != rel]
        for other in frng.sample(sibs, min(2, len(sibs))):
            ofull = os.path.join(root, other)
            with fslayer.real_open(ofull, "rb") as f:
                odata = f.read()
            if odata == data:
                continue
            ost = os.stat(ofull)
            with fslayer.real_open(ofull, "r+b") as f:
                f.truncate(0)
                f.write(data)
            os.utime(ofull, ns=(ost.st_atime_ns, ost.st_mtime_ns))
            try:
                inject(kind, rel, "swap", odata, f"with {other}")
            finally:
                with fslayer.real_open(ofull, "r+b") as f:
                    f.truncate(0)
                    f.write(odata)
                os.utime(ofull, ns=(ost.st_atime_ns, ost.st_mtime_ns))
        # deletion last: re-creating the file afterwards gives it a new inode,
        # in-place faults above keep inode and time stamps
        inject(kind, rel, "delete", None)
    stats["files_attacked"] += len(targets)
    if exhaustive:
        probes["exhaustive_offsets"] += 1
        stats["bytes_enumerated_exhaustively"] += total_bytes
    return depth


shrink = esess.shrink_history


def reach(agg):
    need = []
    p, f = agg["probes"], agg["faults"]
    for name in ("line_endings", "byte_replaced", "bit_flip", "truncate", "extend", "delete", "swap",
                 "rollback"):
        if not f.get(name):
            need.append(f"fault {name} never injected")
    for name in ("shard_size_exact_multiple_of_read_block",
                 "two_concurrent_checks", "two_concurrent_checks_damaged",
                 "tree_depth_1", "tree_depth_3",
                 "target_list_level_3",
                 "target_shard_level_3", "algorithms_13"):
        if not p.get(name):
            need.append(f"probe {name} never hit")
    return need
