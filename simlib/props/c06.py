"""C06 - a writer crash never corrupts or loses committed data (E-crash)."""
from simlib import dsgen, ecrash, esess
from simlib.props import _sess_common as C

ID = "C06"
LEVEL = "fault_enumeration"
TECHNIQUE = ("deterministic simulation with fault injection: process crash at "
             "every file-system effect boundary (open, each partial write "
             "chunk, close, rename, mkdir) of a seeded writing session, torn "
             "writes through a chunking raw-file layer, write-side I/O errors "
             "(ENOSPC/EIO at a seeded write chunk, create, rename or mkdir; "
             "transient or persistent) followed by Python's unwinding, plus "
             "a concurrent reader task interleaved by the seeded scheduler")
RULE = ("case = history of 0..2 committed sessions followed by one crashing "
        "session (root / sub-directory / multi-writer under SimPool; fb, npz, "
        "tfrec), write chunk size in {whole, 37, 64, 256, random<=100}; the "
        "crash oracle (metadata files are a complete old/new version; dataset "
        "opens; reachable shards exist and match their digests; iteration "
        "returns whole, written examples and everything committed earlier) is "
        "evaluated at EVERY effect boundary of the crashing session (tfrec: "
        "every 8th boundary, the stride doubling after every 4 evaluations; TensorFlow's writes are not chunked). 40% of the "
        "cases really kill the process at a seeded instant, 20% (fb/npz) "
        "fail the k-th fallible FS operation with ENOSPC/EIO for 1, 2 or all "
        "following operations instead; both are followed by one more "
        "session of a new process and the same oracle. Non-trivial "
        "= more than 5 crash instants; distinct = distinct event digest.")
STATE_MEASURE = ("event digest = SHA-1 of scheduler trace + FS effects + "
                 "counters per run; abstract state = shape of the directory "
                 "tree at a crash instant: multiset of (depth, file kind) with "
                 "kinds {dataset_info.json, shards_list.json, temp update "
                 "file, shard extension}")
ASSUMPTIONS = C.ASSUMPTIONS + [
    "crash model: process dies, operating system stays up: the directory as "
    "it is after the effects issued so far (Python-buffered bytes lost) is "
    "the post-crash state; no fsync/power-loss reordering is modelled",
    "check() is not required to pass at a crash instant (not promised)",
]
REAL_STUB = C.REAL_STUB


def budget(tier):
    return C.budget(tier, 40.0, 600.0)


def gen_case(rng, tier, index):
    n_prefix = rng.choice([0, 1, 1, 2] if tier == "quick" else
                          [0, 1, 2, 3, 4])
    hist = dsgen.gen_history(
        rng, n_sessions=n_prefix + 1,
        formats=("fb", "fb", "fb", "npz", "npz", "npz", "tfrec"),
        meta_modes=("none", "none", "some"), max_writers=3)
    # the crashing session should write something most of the time
    case = C.base_case(rng, hist)
    case["chunk"] = rng.choice([0, 0, 37, 64, 256, -100])
    case["reader"] = rng.random() < 0.5
    case["reader_at"] = rng.randrange(0, 120)
    case["stride"] = 8 if hist["structure"]["fmt"] == "tfrec" else 1
    case["crash_create"] = rng.random() < 0.3
    # in 40% of the cases the process is really killed at a seeded instant
    # (nothing it does afterwards reaches the disk) and a new process writes
    # one more session on what is left
    mode = rng.random()
    if mode >= 0.4 and mode < 0.6 and hist["structure"]["fmt"] != "tfrec":
        # disk full / EIO instead of a kill: a seeded fallible operation of
        # the last session fails (once, twice, or from then on); the session
        # unwinds through the filler's __exit__, crash points are evaluated
        # all along, then a new process writes one more session
        import errno
        case["io_error"] = {
            "at": rng.choice([1, 2, 3, 4, 6]) if rng.random() < 0.4
            else rng.randrange(1, 80),
            "burst": rng.choice([1, 1, 2, 10 ** 9]),
            "errno": rng.choice([errno.ENOSPC, errno.EIO])}
        case["crash_create"] = False
        ids = iter(range(500000, 500100))
        after = dsgen.gen_session(rng, ids, hist["structure"]["eps"],
                                  ("root", "root", "sub", "multi"),
                                  hist["splits"], ("none",), 2)
        after["reopen"] = True
        case["after"] = after
    if mode < 0.4:
        case["crash_at"] = rng.choice([1, 2, 3, 5, 8]) if rng.random() < 0.3 \
            else rng.randrange(1, 200)
        ids = iter(range(500000, 500100))
        after = dsgen.gen_session(rng, ids, hist["structure"]["eps"],
                                  ("root", "root", "sub", "multi"),
                                  hist["splits"], ("none",), 2)
        after["reopen"] = True
        case["after"] = after
    return case


def run_case(case):
    return ecrash.run_crash_case(case)


def shrink(case):
    for c in esess.shrink_history(case):
        yield c
    if case.get("reader"):
        c = dict(case)
        c["reader"] = False
        c.pop("choices", None)
        yield c
    if case.get("chunk"):
        c = dict(case)
        c["chunk"] = 0
        c.pop("choices", None)
        yield c


def reach(agg):
    need = []
    p, s = agg["probes"], agg["stats"]
    if s.get("crash_instants_evaluated", 0) < 2000:
        need.append("fewer than 2000 crash instants evaluated")
    for name in ("instant_replace", "instant_write", "instant_mkdir",
                 "instant_right_after_rename", "torn_write_instants",
                 "crashing_kind_root", "crashing_kind_sub",
                 "crashing_kind_multi", "crashing_session_first",
                 "crashing_session_continued", "reader_started_mid_session",
                 "process_killed", "session_after_restart_completed",
                 "io_error_fired", "io_error_at_write", "io_error_at_replace",
                 "session_raised_after_io_error",
                 "crash_points_inside_create"):
        if not p.get(name):
            need.append(f"probe {name} never hit")
    return need
