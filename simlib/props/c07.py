"""C07 - unreadable shards surface as errors: never a hang, never silent
truncation."""
from __future__ import annotations

import collections
import hashlib
import os
import random

from simlib import bootstrap, dsgen, eread, fslayer, sched as S
from simlib.props import c02

ID = "C07"
LEVEL = "exploration"
# a worker that hangs or blows up in native code while running a case of this
# property is re-run in a sandboxed interpreter; a second hang is the verdict
HANG_IS_VIOLATION = True
TECHNIQUE = ("deterministic simulation with fault injection: stored-byte "
             "faults (deleted / emptied / truncated / garbage shard) under "
             "every iteration interface; which worker meets the damaged shard "
             "and when is decided by the seeded scheduler (LazyPool, "
             "SimExecutor, virtual-time loop); exact deadlock detection for "
             "controlled components, forked child + watchdog for the Rust "
             "extension")
RULE = ("case = generated dataset x damaged shard (first / middle / last, "
        "optionally a second one) x damage kind x interface in {sync, conc, "
        "async, rust, tfdata} x shuffle on/off x file_parallelism. A damage "
        "instance is in scope only if the format's own sequential decode of "
        "that file raises (otherwise counted as fault-not-effective). Oracle: "
        "the full pass must deliver an exception to the consumer; a normal "
        "end is silent truncation; a simulator deadlock / step-budget "
        "exhaustion (or a watchdog kill for Rust) is a hang. 30% of the cases "
        "read the default repeating stream instead: the exception must "
        "arrive within 3 epochs' worth of examples. Non-trivial = "
        "effective damage; distinct = SHA-1 of trace + outcome.")
ASSUMPTIONS = c02.ASSUMPTIONS + [
    "a hang inside tf.data itself cannot be turned into a verdict (the main "
    "thread is blocked in C++); it would surface as a harness error",
    "damage the decoder accepts (e.g. NUL bytes that parse as an empty "
    "FlatBuffers shard, an empty TFRecord file) is out of scope",
]
REAL_STUB = c02.REAL_STUB

KINDS = ("deleted", "emptied", "truncated", "garbage", "garbage_head",
         "io_error")


def budget(tier):
    if tier == "quick":
        return {"wall_s": 35.0, "max_cases": 10**9, "case_timeout": 150.0}
    return {"wall_s": 420.0, "max_cases": 10**9, "case_timeout": 200.0}


def setup(tier, build=True):
    if build:
        bootstrap.build_rust()


def gen_case(rng, tier, index):
    iface = rng.choice(["sync", "conc", "conc", "conc", "async", "rust",
                        "tfdata" if rng.random() < 0.6 else "conc"])
    fmts = {"async": ("fb", "npz"), "rust": ("fb",),
            "tfdata": ("fb", "npz", "tfrec", "tfrec")}.get(
        iface, ("fb", "fb", "npz", "npz", "tfrec"))
    comp = rng.choice(dsgen.RUST_COMPRESSIONS) if iface == "rust" else None
    hist = eread.read_hist(rng, formats=fmts, compression=comp,
                           max_sessions=2)
    return {"hist": hist, "iface": iface,
            "damage": [{"where": rng.choice(["first", "middle", "last"]),
                        "kind": rng.choice(KINDS),
                        "frac": rng.choice([0.1, 0.5, 0.9]),
                        "bytes_seed": rng.getrandbits(32)}
                       for _ in range(rng.choice([1, 1, 1, 2]))],
            "shuffle": rng.choice([0, 0, 2, 50]),
            # the default, endless stream: the error must arrive within a
            # bounded prefix (three epochs' worth of examples)
            "repeat": rng.random() < 0.3,
            "fp_sel": rng.choice([1, 2, 3, "s", "s+2"]),
            "seed": rng.getrandbits(32), "sched_seed": rng.getrandbits(48),
            "policy": rng.choice(S.POLICIES),
            "policy_param": rng.randrange(0, 4)}


def apply_damage(path: str, d: dict) -> None:
    if d["kind"] == "deleted":
        os.unlink(path)
        return
    with fslayer.real_open(path, "rb") as f:
        data = f.read()
    r = random.Random(d["bytes_seed"])
    if d["kind"] == "emptied":
        new = b""
    elif d["kind"] == "truncated":
        new = data[:max(1, int(len(data) * d["frac"]))]
        if new == data:
            new = data[:-1]
    elif d["kind"] == "garbage":
        new = r.randbytes(max(8, len(data)))
    else:  # garbage_head: keep the length, destroy the first bytes
        n = max(4, int(len(data) * 0.2))
        new = r.randbytes(n) + data[n:]
    with fslayer.real_open(path, "wb") as f:
        f.write(new)


def run_case(case):
    hist = case["hist"]
    st = hist["structure"]
    iface = case["iface"]
    out = {"ok": True}
    h = hashlib.sha1()
    stats = collections.Counter()
    probes = collections.Counter()
    faults = collections.Counter()
    bootstrap.sedpack_io()
    if not eread.supports(iface, st):
        iface = "sync"
    effective = False
    sample = {}
    rr = None
    with eread.ReadEnv(hist, case["seed"]) as env:
        splits = [s for s in hist["splits"] if env.model.ids(s)]
        if not splits:
            return {"ok": True, "digest": "empty", "nontrivial": False,
                    "probes": {"empty_dataset": 1}}
        split = splits[0]
        table = env.shard_table(split)
        n = len(table)
        hit = []
        with env.fs.suspended():
            for d in case["damage"]:
                idx = {"first": 0, "middle": n // 2, "last": n - 1}[d["where"]]
                if idx in hit:
                    continue
                full = os.path.join(env.root, table[idx]["path"])
                if d["kind"] == "io_error":
                    # a failing system call: open() of that shard returns EIO
                    # (only visible to readers that open files in Python)
                    if iface in ("rust", "tfdata") or st["fmt"] == "tfrec":
                        d = dict(d, kind="deleted")
                    else:
                        import errno
                        env.fs.fail_reads[env.fs.rel(full)] = errno.EIO
                        effective = True
                        hit.append(idx)
                        faults["open_returns_EIO"] += 1
                        continue
                apply_damage(full, d)
                # scope: damage the decoder rejects.  A missing file, and a
                # zero-byte fb / npz file (neither a FlatBuffer nor a zip
                # archive), are unreadable by definition - the code under
                # test is not asked; an empty TFRecord file is a valid file
                # with no records; for the other kinds the format's own
                # sequential decode decides
                by_definition = d["kind"] == "deleted" or (
                    d["kind"] == "emptied" and st["fmt"] in ("fb", "npz"))
                try:
                    if by_definition:
                        raise ValueError("unreadable by definition")
                    dsgen.decode_shard(env.root, table[idx]["path"], st)
                    probes["damage_accepted_by_decoder"] += 1
                except Exception:  # pylint: disable=broad-except
                    effective = True
                    hit.append(idx)
                    faults["shard_" + d["kind"]] += 1
        if not effective:
            return {"ok": True, "digest": "ineffective", "nontrivial": False,
                    "probes": dict(probes, fault_not_effective=1)}
        fp = {"s": max(1, n), "s+2": n + 2}.get(case["fp_sel"],
                                                case["fp_sel"])
        repeat = bool(case.get("repeat"))
        opts = {"repeat": repeat, "shuffle": case["shuffle"], "fp": fp}
        total = len(env.model.ids(split))
        bound = 3 * total + case["shuffle"] + 10 if repeat else None
        if repeat:
            probes["repeating_stream"] += 1
        random.seed(case["seed"])
        ds = env.open()
        ctx = (f"{iface} {st['fmt']}/{st['compression']} shards={n} damaged="
               f"{hit} kinds={[d['kind'] for d in case['damage']]} "
               f"shuffle={case['shuffle']} fp={fp}" +
               (f" repeat=True (prefix of {bound} examples = 3 epochs)"
                if repeat else ""))
        key = {"engine": "E-read", "iface": iface}
        if iface == "rust":
            def child():
                items = []
                for e in eread.make_iter(ds, "rust", split, opts):
                    items.append(dsgen.canon(e, st["attrs"])[0])
                    if bound is not None and len(items) >= bound:
                        break
                return len(items)

            with env.fs.suspended():
                status, val = eread.forked(child, 60.0)
            if status == "hang":
                out.update(ok=False, vclass="hang", key=key,
                           detail=f"{ctx}: no result within 60 s (observed by "
                           f"watchdog)")
            elif status == "ok":
                out.update(
                    ok=False, vclass="pass_ends_normally", key=key,
                    detail=f"{ctx}: the pass ended normally after {val} "
                    f"examples; the damaged shard was silently skipped")
            elif status == "died":
                probes["rust_child_died"] += 1  # abort = an error surfaced
            else:
                probes["error_delivered"] += 1
            h.update(repr((status, val if status != "exc" else "")).encode())
        else:
            def go():
                return eread.run_reader(
                    env, ds, iface, split, opts, k=bound,
                    seed=case["sched_seed"],
                    policy=case["policy"], policy_param=case["policy_param"],
                    choices=case.get("choices"), max_steps=200000,
                    line_prob=0.3 if case["seed"] & 2 else 0.0)

            if iface == "tfdata" and not os.environ.get("VERIF_NO_FORK"):
                # tf.data blocks in C++ where no signal handler can run: use
                # a forked child with a watchdog
                def child():
                    r = go()
                    return (type(r.exc).__name__ if r.exc is not None
                            else None, str(r.exc)[:200], len(r.items))

                with env.fs.suspended():
                    status, val = eread.forked(child, 30.0)
                rr = eread.ReaderRun()
                if status == "hang":
                    if eread.confirm_hang_in_subprocess("C07", case, 80.0):
                        rr.deadlock = ("no result within 30 s in a forked "
                                       "child and 80 s in a fresh "
                                       "interpreter (tf.data, observed by "
                                       "watchdog)")
                    else:
                        probes["fork_hang_not_confirmed"] += 1
                        rr.exc = RuntimeError("unconfirmed")
                elif status == "ok":
                    if val[0] is not None:
                        rr.exc = RuntimeError(f"{val[0]}: {val[1]}")
                    rr.items = [None] * val[2]
                else:
                    rr.exc = RuntimeError(str(val))
            else:
                rr = go()
            if rr.deadlock:
                out.update(ok=False, vclass="hang", key=key,
                           detail=f"{ctx}: {rr.deadlock}")
            elif rr.exc is None:
                out.update(
                    ok=False, vclass="pass_ends_normally", key=key,
                    detail=f"{ctx}: the pass ended normally after "
                    f"{len(rr.items)} examples; the damaged shard was "
                    f"silently skipped")
            else:
                probes["error_delivered"] += 1
                probes["error_" + type(rr.exc).__name__] += 1
            if rr.sched is not None:
                h.update(rr.sched.digest().encode())
                stats["scheduler_decisions"] += rr.sched.steps
            h.update(repr((type(rr.exc).__name__, len(rr.items))
                          if iface != "tfdata" else
                          rr.exc is not None).encode())
        probes["iface_" + iface] += 1
        probes["shuffled" if case["shuffle"] else "unshuffled"] += 1
        for d in case["damage"]:
            probes["damaged_" + d["where"]] += 1
        sample = {"iface": iface, "structure": st, "opts": opts,
                  "shards": n, "damaged": hit,
                  "damage": case["damage"],
                  "outcome": out.get("vclass") or "exception delivered"}
    out.setdefault("key", {"engine": "E-read", "iface": iface})
    out.update({"digest": h.hexdigest(), "nontrivial": effective,
                "stats": dict(stats), "probes": dict(probes),
                "faults": dict(faults), "sample": sample})
    if (not out["ok"] and rr is not None and rr.sched is not None and
            "choices" not in case):
        case["choices"] = list(rr.sched.choices_out)
    return out


def shrink(case):
    if len(case["damage"]) > 1:
        for i in range(len(case["damage"])):
            c = dict(case)
            c.pop("choices", None)
            c["damage"] = [case["damage"][i]]
            yield c
    from simlib import esess
    for c in esess.shrink_history(case):
        yield c
    for key, simpler in (("shuffle", 0), ("fp_sel", 1)):
        if case[key] != simpler:
            c = dict(case)
            c.pop("choices", None)
            c[key] = simpler
            yield c


def reach(agg):
    need = []
    p, f = agg["probes"], agg["faults"]
    for name in ("repeating_stream", "iface_sync", "iface_conc",
                 "iface_async", "shuffled",
                 "unshuffled", "damaged_first", "damaged_middle",
                 "damaged_last", "error_delivered"):
        if not p.get(name):
            need.append(f"probe {name} never hit")
    for name in ("shard_deleted", "shard_emptied", "shard_truncated",
                 "shard_garbage", "open_returns_EIO"):
        if not f.get(name):
            need.append(f"fault {name} never effective")
    return need
