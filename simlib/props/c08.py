"""C08 - continued writing is append-only; create refuses an existing dataset."""
from simlib import dsgen, esess
from simlib.props import _sess_common as C

ID = "C08"
LEVEL = "exploration"
TECHNIQUE = ("deterministic simulation: seeded session histories with restart "
             "(reopen) against a reference model of the dataset (multiset per "
             "split), multi-writer sessions under a simulated process pool")
RULE = ("case = history of 1..5 sessions over {root, fresh/reused/nested "
        "sub-directory, multi-writer}, 1..3 splits, reopen-or-keep; after each "
        "session every split is read back through a fresh handle and compared "
        "byte-exactly with the model (before + written); a raising session is "
        "a violation; Dataset.create over the existing dataset - its path "
        "spelled as str, Path, relative, dotted, through '..' and with '~' - "
        "must raise and leave the tree byte-identical. Non-trivial/distinct as for C04.")
ASSUMPTIONS = C.ASSUMPTIONS
REAL_STUB = C.REAL_STUB


def budget(tier):
    return C.budget(tier, 35.0, 420.0)


def gen_case(rng, tier, index):
    hist = dsgen.gen_history(rng, n_sessions=rng.randrange(1, 6 if tier == "quick" else 9),
                             formats=C.tfrec_share(tier))
    return C.base_case(rng, hist)


def run_case(case):
    return esess.run_history(case, ["C08"])


shrink = esess.shrink_history


def reach(agg):
    need = []
    p = agg["probes"]
    if p.get("history_ran_to_completion", 0) * 2 < agg["evaluations"]:
        need.append("fewer than half of the histories ran to completion")
    for name in ("session_root", "session_sub", "session_multi"):
        if not p.get(name):
            need.append(f"probe {name} never hit")
    if not agg["stats"].get("create_refusals_checked"):
        need.append("create-over-existing never exercised")
    return need
