"""C09 - parallel writers do not interfere (write_multiprocessing on SimPool)."""
from __future__ import annotations

import collections
import hashlib
import os
import random
import shutil

from simlib import bootstrap, dsgen, esess, fslayer, sched as S, simexec
from simlib.esess import Violation
from simlib.props import _sess_common as C

ID = "C09"
LEVEL = "exploration"
TECHNIQUE = ("deterministic simulation: write_multiprocessing on a simulated "
             "process pool (baton threads, pickle boundary, per-process random "
             "state), every file-system effect / open / existence check of a "
             "worker is a seeded scheduling point; disjointness monitor on the "
             "FS effect log; equivalence with the sequential run")
RULE = ("case = optional committed prefix session + one multi-writer call "
        "with 1..5 (sometimes 11..13) writers, uneven loads, several splits "
        "per writer, empty writers, scheduler policy random / PCT / "
        "starve-one / run-to-block. Oracle: the call returns; return values "
        "in argument order; per split the multiset equals the model and "
        "equals the single_process=True run of the same writers in a sibling "
        "directory; each writer's examples in its own order; C04 exactness; "
        "check() passes; the sets of paths each worker created / wrote / "
        "renamed onto are pairwise disjoint and disjoint from the parent's "
        "writes while workers are alive. Non-trivial = >= 2 writers with a "
        "multi-candidate decision; distinct = event digest.")
ASSUMPTIONS = C.ASSUMPTIONS + [
    "worker processes are modelled as threads: memory is shared, so only "
    "interference through the file system and through return/merge order is "
    "observable (that is what the property is about)"]
REAL_STUB = C.REAL_STUB


def budget(tier):
    return C.budget(tier, 35.0, 420.0)


def gen_case(rng, tier, index):
    hist = dsgen.gen_history(
        rng, n_sessions=1, kinds=("multi",),
        formats=("fb", "fb", "fb", "npz", "npz", "tfrec"),
        meta_modes=("none", "none", "some"), max_writers=5,
        hashes=[rng.choice(dsgen.HASHES)
                for _ in range(rng.choice([1, 1, 2]))])
    ses = hist["sessions"][0]
    ses["single_process"] = False
    ses["reopen"] = False
    if rng.random() < 0.12:
        # many small writers (ordering of >= 11 results)
        ids = iter(range(5000, 9000))
        ses["writers"] = [
            [{"split": rng.choice(hist["splits"]), "id": next(ids)}
             for _ in range(rng.choice([0, 1, 1, 2]))]
            for _ in range(rng.choice([11, 12, 13]))]
    if rng.random() < 0.4:
        ids = iter(range(100000, 100100))
        pre = dsgen.gen_session(rng, ids, hist["structure"]["eps"],
                                ("root", "sub", "multi"), hist["splits"],
                                ("none",), 2)
        if pre["kind"] == "multi":
            pre["single_process"] = True
        hist["sessions"].insert(0, pre)
    case = C.base_case(rng, hist)
    case["policy"] = rng.choice(["random", "random", "pct", "starve",
                                 "run_to_block", "round_robin"])
    case["policy_param"] = rng.randrange(0, 6)
    # cross-check of the SimPool stub: a few cases use the real
    # multiprocessing.Pool (real processes, uncontrolled, in a forked child
    # with a watchdog); only schedule-independent facts are asserted
    case["real_pool"] = rng.random() < (0.04 if tier == "quick" else 0.15)
    if case["real_pool"] and rng.random() < 0.6:
        # two multi-writer calls on one dataset, both with real processes
        # (state a forked worker inherits from the parent is the same in both)
        ids = iter(range(200000, 200100))
        pre = dsgen.gen_session(rng, ids, hist["structure"]["eps"],
                                ("multi",), hist["splits"], ("none",), 3)
        pre["single_process"] = False
        hist["sessions"].insert(len(hist["sessions"]) - 1, pre)
    return case


def run_real_pool(case):
    """write_multiprocessing with real worker processes."""
    from simlib import eread
    hist = case["hist"]
    st = hist["structure"]
    scratch = fslayer.new_scratch("mwreal")
    root = os.path.join(scratch, "A", "root")
    os.makedirs(os.path.dirname(root))
    last = len(hist["sessions"]) - 1
    ses = hist["sessions"][last]
    out = {"ok": True, "vclass": None, "detail": "", "key": {}}

    def child():
        with dsgen.seams(hist["name_seed"], hist.get("clock", "monotone")):
            ha = dsgen.HistoryRunner(hist, root, pool_factory=None)
            ha.real_pool = True
            ha.create()
            for k in range(last):
                ha.run_session(k)
            ha.reopen()
            args = [[w, st["attrs"], st["fmt"]] for w in ses["writers"]]
            res = ha.ds.write_multiprocessing(
                feed_writer=dsgen.feed_writer, custom_arguments=args,
                consistency_check=True, single_process=False)
            fresh = ha.sio.Dataset(root)
            got = {s: [i for i, _ in dsgen.read_sync(fresh, s, st["attrs"])]
                   for s in fresh._dataset_info.splits}  # pylint: disable=protected-access
            want = {s: sorted(ha.model.ids(s)) for s in ha.model.committed}
            for w in ses["writers"]:
                for x in w:
                    want.setdefault(x["split"], []).append(x["id"])
            return [list(r) for r in res], got, {s: sorted(v)
                                                 for s, v in want.items()}

    try:
        status, val = eread.forked(child, 120.0)
        nwriters = len(ses["writers"])
        if status == "hang":
            out.update(ok=False, vclass="hang", key={"engine": "real_pool"},
                       detail=f"{nwriters} real worker processes: no result "
                       f"within 120 s")
        elif status != "ok":
            out.update(ok=False, vclass="multi_writer_call_raised",
                       key={"engine": "real_pool"},
                       detail=f"{nwriters} real worker processes: {val}")
        else:
            res, got, want = val
            for split in set(want) | set(got):
                if sorted(got.get(split, [])) != want.get(split, []) and \
                        out["ok"]:
                    out.update(
                        ok=False, vclass="differs_from_sequential_run",
                        key={"engine": "real_pool"},
                        detail=f"split {split} after "
                        f"{sum(1 for s_ in hist['sessions'] if s_['kind'] == 'multi')}"
                        f" multi-writer call(s) with real processes: read "
                        f"{sorted(got.get(split, []))[:10]} expected "
                        f"{want.get(split, [])[:10]}")
            want_ret = [["wrote", len(w), [x["id"] for x in w][:1]]
                        for w in ses["writers"]]
            if res != want_ret:
                out.update(ok=False,
                           vclass="return_values_not_in_argument_order",
                           key={"engine": "real_pool"},
                           detail=f"expected {want_ret[:6]} got {res[:6]}")
            for wi, writes in enumerate(ses["writers"]):
                for split in {w["split"] for w in writes}:
                    wrote = [w["id"] for w in writes if w["split"] == split]
                    mine = [i for i in got.get(split, []) if i in set(wrote)]
                    if mine != wrote and out["ok"]:
                        out.update(ok=False,
                                   vclass="writer_order_not_preserved",
                                   key={"engine": "real_pool"},
                                   detail=f"split {split} writer {wi}: wrote "
                                   f"{wrote[:8]} read {mine[:8]}")
    finally:
        shutil.rmtree(scratch, ignore_errors=True)
    out.update({"digest": hashlib.sha1(repr((case["sched_seed"],
                                             out["ok"])).encode()).hexdigest(),
                "nontrivial": len(ses["writers"]) >= 2,
                "stats": {"real_pool_runs": 1},
                "probes": {"real_multiprocessing_pool": 1},
                "sample": {"real_pool": True,
                           "writers": [len(w) for w in ses["writers"]]}})
    return out


class Monitor:
    """Who created / wrote / renamed onto which path (from the effect log)."""

    def __init__(self):
        self.by_task = collections.defaultdict(set)
        self.live_workers = set()
        self.parent_while_live = set()
        self.armed = False

    def hook(self, ev):
        _, tid, kind, rel, _ = ev
        if not self.armed or kind not in ("open_w", "replace", "tf_open"):
            return
        if tid == 0:
            if self.live_workers:
                self.parent_while_live.add(rel)
        else:
            self.by_task[tid].add(rel)


def run_case(case):
    if case.get("real_pool"):
        return run_real_pool(case)
    hist = case["hist"]
    st = hist["structure"]
    stats = collections.Counter()
    probes = collections.Counter()
    out = {"ok": True, "vclass": None, "detail": "", "key": {}}
    scratch = fslayer.new_scratch("mw")
    root = os.path.join(scratch, "A", "root")
    rootb = os.path.join(scratch, "B", "root")
    os.makedirs(os.path.dirname(root))
    os.makedirs(os.path.dirname(rootb))
    rng = random.Random(case["sched_seed"])
    sc = S.Sched(rng, policy=case["policy"],
                 policy_param=case.get("policy_param", 0),
                 choices=case.get("choices"), max_steps=400000)
    fs = fslayer.FS(scratch, random.Random(case["sched_seed"] ^ 0xF5),
                    track_stat=True)
    fs.keep_log = False
    mon = Monitor()
    fs.hooks.append(mon.hook)
    last = len(hist["sessions"]) - 1
    ses = hist["sessions"][last]
    nwriters = len(ses["writers"])
    try:
        with dsgen.seams(hist["name_seed"], hist.get("clock", "monotone")), \
                fs, sc:
            from simlib.ecrash import TFWriterSeam
            tfseam = TFWriterSeam(fs) if st["fmt"] == "tfrec" else None
            if tfseam:
                tfseam.__enter__()
            try:
                # ---------------- run B first: sequential reference
                hb = dsgen.HistoryRunner(hist, rootb, pool_factory=None)
                with fs.suspended():
                    hb.create()
                    for k in range(last + 1):
                        hb.run_session(k)
                    ref = {s: [i for i, _ in dsgen.read_sync(
                        hb.ds, s, st["attrs"])]
                        for s in hb.ds._dataset_info.splits}  # pylint: disable=protected-access
                # ---------------- run A: simulated worker processes
                pool_tasks = []

                class Pool(simexec.SimPool):

                    def _run_all(self, func, iterable):
                        r = super()._run_all(func, iterable)
                        pool_tasks.extend(self._tasks)
                        mon.live_workers = {t.tid for t in self._tasks}
                        return r

                    def terminate(self):
                        mon.live_workers = set()
                        super().terminate()

                ha = dsgen.HistoryRunner(hist, root,
                                         pool_factory=lambda s_: Pool)
                with fs.suspended():
                    ha.create()
                    for k in range(last):
                        ha.run_session(k)
                mon.armed = True
                try:
                    ha.run_session(last)
                except (S.SimDeadlock, S.SimStepLimit, S.SimAbort):
                    raise
                except Exception as e:  # pylint: disable=broad-except
                    import traceback
                    tb = traceback.extract_tb(e.__traceback__)
                    where = next(
                        (f"{os.path.basename(fr.filename)}:{fr.name}"
                         for fr in reversed(tb) if "/sedpack/" in fr.filename),
                        "?")
                    raise Violation(
                        "C09", "multi_writer_call_raised",
                        f"{nwriters} writers: {type(e).__name__}: "
                        f"{str(e)[:200]} at {where} (the sequential run of "
                        f"the same writers succeeds)",
                        key={"exception": type(e).__name__}) from e
                finally:
                    mon.armed = False
                with fs.suspended():
                    # return values in argument order
                    want_ret = [("wrote", len(w), [x["id"] for x in w][:1])
                                for w in ses["writers"]]
                    got_ret = [tuple(r) if isinstance(r, (list, tuple)) else r
                               for r in ha.multi_results[-1]]
                    got_ret = [(r[0], r[1], list(r[2])) if isinstance(
                        r, tuple) and len(r) == 3 else r for r in got_ret]
                    if got_ret != want_ret:
                        raise Violation(
                            "C09", "return_values_not_in_argument_order",
                            f"{nwriters} writers: expected {want_ret[:13]} "
                            f"got {got_ret[:13]}")
                    # contents
                    fresh = ha.sio.Dataset(root)
                    for split in set(ref) | set(fresh._dataset_info.splits):  # pylint: disable=protected-access
                        got = dsgen.read_sync(fresh, split, st["attrs"]) \
                            if split in fresh._dataset_info.splits else []  # pylint: disable=protected-access
                        err = dsgen.check_examples(got, st["attrs"],
                                                   st["fmt"])
                        if err:
                            raise Violation("C09", "example_corrupted",
                                            f"{split}: {err}")
                        ids = [i for i, _ in got]
                        if collections.Counter(ids) != collections.Counter(
                                ref.get(split, [])):
                            raise Violation(
                                "C09", "differs_from_sequential_run",
                                f"split {split}: parallel {sorted(ids)[:12]} "
                                f"sequential {sorted(ref.get(split, []))[:12]}")
                        owner = {r.id: r.writer
                                 for r in ha.model.committed[split]
                                 if r.session == last}
                        for w in range(nwriters):
                            mine = [i for i in ids if owner.get(i) == w]
                            wrote = [x["id"] for x in ses["writers"][w]
                                     if x["split"] == split]
                            if mine != wrote:
                                raise Violation(
                                    "C09", "writer_order_not_preserved",
                                    f"split {split} writer {w}: wrote "
                                    f"{wrote[:10]} read {mine[:10]}")
                    esess.oracle_c04(ha, stats)
                    try:
                        ha.ds.check(show_progressbar=False)
                        fresh.check(show_progressbar=False)
                    except Exception as e:  # pylint: disable=broad-except
                        raise Violation(
                            "C09", "integrity_check_fails",
                            f"{type(e).__name__}: {str(e)[:200]}") from e
                    # disjointness
                    tids = sorted(mon.by_task)
                    for i, a in enumerate(tids):
                        for b in tids[i + 1:]:
                            both = mon.by_task[a] & mon.by_task[b]
                            if both:
                                raise Violation(
                                    "C09", "two_workers_wrote_the_same_file",
                                    f"{sorted(both)[:4]}")
                        both = mon.by_task[a] & mon.parent_while_live
                        if both:
                            raise Violation(
                                "C09", "parent_and_worker_wrote_the_same_file",
                                f"{sorted(both)[:4]}")
                    stats["multi_writer_calls_checked"] += 1
                    stats["worker_paths_written"] += sum(
                        len(v) for v in mon.by_task.values())
            except Violation as v:
                out.update(ok=False, vclass=v.vclass, detail=v.detail,
                           key=dict(v.key, engine="E-sess", fmt=st["fmt"]))
            except S.SimDeadlock as e:
                out.update(ok=False, vclass="deadlock", detail=str(e),
                           key={"engine": "E-sess"})
            except S.SimStepLimit as e:
                out.update(ok=False, vclass="no_termination", detail=str(e),
                           key={"engine": "E-sess"})
            finally:
                if tfseam:
                    tfseam.__exit__()
    finally:
        shutil.rmtree(scratch, ignore_errors=True)
    stats["scheduler_decisions"] += sc.steps
    stats["fs_effects"] += fs.n_effects
    probes["writers_%s" % ("11+" if nwriters >= 11 else nwriters)] += 1
    if any(not w for w in ses["writers"]):
        probes["empty_writer"] += 1
    if len({x["split"] for w in ses["writers"] for x in w}) > 1:
        probes["several_splits"] += 1
    if last > 0:
        probes["after_committed_prefix"] += 1
    probes["policy_" + case["policy"]] += 1
    out.update({
        "digest": hashlib.sha1((sc.digest() + repr(sorted(
            stats.items()))).encode()).hexdigest(),
        "nontrivial": nwriters >= 2 and sc.multi_decisions > 0,
        "stats": dict(stats), "probes": dict(probes),
        "sample": {"structure": st, "writers": [len(w) for w in
                                                ses["writers"]],
                   "policy": case["policy"], "decisions": sc.steps,
                   "fs_effects": fs.n_effects},
    })
    if not out["ok"] and "choices" not in case:
        case["choices"] = list(sc.choices_out)
    return out


shrink = esess.shrink_history


def reach(agg):
    need = []
    p = agg["probes"]
    for name in ("writers_1", "writers_2", "writers_5", "writers_11+",
                 "empty_writer", "several_splits", "after_committed_prefix",
                 "policy_starve", "policy_pct", "real_multiprocessing_pool"):
        if not p.get(name):
            need.append(f"probe {name} never hit")
    if not agg["stats"].get("multi_writer_calls_checked"):
        need.append("no multi-writer call checked")
    return need
