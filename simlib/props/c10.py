"""C10 - shards respect the configured size."""
from simlib import dsgen, esess
from simlib.props import _sess_common as C

ID = "C10"
LEVEL = "exploration"
TECHNIQUE = ("deterministic simulation harness (E-sess) used as a history "
             "generator: invariant over every recorded shard after every "
             "session; the rollover rule is sequential, the simulator adds "
             "histories and multi-writer interleavings only")
RULE = ("case = history of 1..4 sessions with per-split counts in {0, 1, "
        "k*eps-1, k*eps, k*eps+1}, eps in 1..5, splits interleaved per write, "
        "metadata absent / alternating / repeated / mutated in place; invariant "
        "after each session: every listed shard has 1 <= recorded == decoded "
        "<= eps, and inside one (session, writer, split) a non-last shard that "
        "is not full is followed by a write whose non-empty metadata differs "
        "from the shard's. Non-trivial/distinct as for C04.")
ASSUMPTIONS = C.ASSUMPTIONS + [
    "no schedule dimension of its own: the property is a function of the "
    "write sequence; simulation contributes generated histories only"]
REAL_STUB = C.REAL_STUB


def budget(tier):
    return C.budget(tier, 30.0, 300.0)


def _variable_size_attribute(rng, hist):
    """Sometimes declare a variable-size bytes/str attribute (npz, tfrec);
    rejected writes aimed at it only omit or misspell it (what other invalid
    values for such an attribute do is C18's business)."""
    st = hist["structure"]
    if st["fmt"] not in ("npz", "tfrec") or rng.random() >= 0.4:
        return
    st["attrs"].insert(rng.randrange(0, len(st["attrs"]) + 1),
                       {"name": "v0", "dtype": rng.choice(["bytes", "str"]),
                        "shape": []})
    at = [i for i, a in enumerate(st["attrs"]) if a["name"] == "v0"][0]
    for ses in hist["sessions"]:
        ws = list(ses.get("writes", []))
        for x in ses.get("writers", []):
            ws.extend(x)
        for w in ws:
            if w.get("bad"):
                if rng.random() < 0.5:
                    w["bad_attr"] = at
                if w["bad_attr"] % len(st["attrs"]) == at and w["bad"] not in (
                        "missing", "misspelt"):
                    w["bad"] = rng.choice(["missing", "misspelt"])


def gen_case(rng, tier, index):
    hist = dsgen.gen_history(rng, n_sessions=rng.randrange(1, 5),
                             formats=("fb", "fb", "npz", "npz", "fb", "npz",
                                      "tfrec"),
                             kinds=("root", "root", "root", "sub", "multi"),
                             meta_modes=("none", "some", "runs", "runs"),
                             bad_rate=rng.choice([0, 0, 0.15]),
                             bad_kinds=("shape", "rank", "missing",
                                        "unsafe_dtype_fb", "extra_tfrec",
                                        "extra_npz_tfrec", "misspelt"))
    _variable_size_attribute(rng, hist)
    return C.base_case(rng, hist)


def run_case(case):
    return esess.run_history(case, ["C10"])


shrink = esess.shrink_history


def reach(agg):
    need = []
    if not agg["stats"].get("non_full_non_last_shards"):
        need.append("no non-full non-last shard (metadata rollover) seen")
    if agg["stats"].get("shards_seen", 0) < 100:
        need.append("fewer than 100 shards inspected")
    return need
