"""C10 - shards respect the configured size."""
from simlib import dsgen, esess
from simlib.props import _sess_common as C

ID = "C10"
LEVEL = "exploration"
TECHNIQUE = ("deterministic simulation harness (E-sess) used as a history "
             "generator: invariant over every recorded shard after every "
             "session; the rollover rule is sequential, the simulator adds "
             "histories and multi-writer interleavings only")
RULE = ("case = history of 1..4 sessions with per-split counts in {0, 1, "
        "k*eps-1, k*eps, k*eps+1}, eps in 1..5, splits interleaved per write, "
        "metadata absent / alternating / repeated / mutated in place; invariant "
        "after each session: every listed shard has 1 <= recorded == decoded "
        "<= eps, and inside one (session, writer, split) a non-last shard that "
        "is not full is followed by a write whose non-empty metadata differs "
        "from the shard's. Non-trivial/distinct as for C04.")
ASSUMPTIONS = C.ASSUMPTIONS + [
    "no schedule dimension of its own: the property is a function of the "
    "write sequence; simulation contributes generated histories only"]
REAL_STUB = C.REAL_STUB


def budget(tier):
    return C.budget(tier, 30.0, 300.0)


def gen_case(rng, tier, index):
    hist = dsgen.gen_history(rng, n_sessions=rng.randrange(1, 5),
                             formats=("fb", "fb", "npz", "npz", "fb", "npz",
                                      "tfrec"),
                             kinds=("root", "root", "root", "sub", "multi"),
                             meta_modes=("none", "some", "runs", "runs"),
                             bad_rate=rng.choice([0, 0, 0.15]),
                             bad_kinds=("shape", "rank", "missing",
                                        "unsafe_dtype_fb", "extra_tfrec"))
    return C.base_case(rng, hist)


def run_case(case):
    return esess.run_history(case, ["C10"])


shrink = esess.shrink_history


def reach(agg):
    need = []
    if not agg["stats"].get("non_full_non_last_shards"):
        need.append("no non-full non-last shard (metadata rollover) seen")
    if agg["stats"].get("shards_seen", 0) < 100:
        need.append("fewer than 100 shards inspected")
    return need
