"""C11 - shard-level custom metadata describes exactly the examples it labels."""
from simlib import dsgen, esess
from simlib.props import _sess_common as C

ID = "C11"
LEVEL = "exploration"
TECHNIQUE = ("deterministic simulation harness (E-sess) used as a history "
             "generator with a reference model that snapshots the metadata "
             "argument at call time (caller-side mutation is an injected "
             "aliasing fault)")
RULE = ("case = history whose writes draw the metadata argument from {absent, "
        "{}, repeat last, one of 5 values, fresh equal copy, the same dict "
        "object mutated in place between writes (top level, or only values "
        "inside a nested dict / list)}, with rejected writes (caught by the "
        "caller) in between in a third of the cases; oracle: every example "
        "written with non-empty M lies in a shard whose recorded metadata == "
        "snapshot(M), and shard_filter by M returns all of them and nothing "
        "written under a different non-empty M'. Non-trivial/distinct as for "
        "C04.")
ASSUMPTIONS = C.ASSUMPTIONS + [
    "examples written with absent/empty metadata may inherit a label (as "
    "documented) and are not constrained",
    "no schedule dimension of its own"]
REAL_STUB = C.REAL_STUB


def budget(tier):
    return C.budget(tier, 30.0, 300.0)


def gen_case(rng, tier, index):
    hist = dsgen.gen_history(rng, n_sessions=rng.randrange(1, 4),
                             formats=("fb", "fb", "npz", "npz", "fb", "npz",
                                      "tfrec"),
                             kinds=("root", "root", "sub", "multi"),
                             meta_modes=("some", "runs", "runs"),
                             # rejected writes (the caller catches the error
                             # and carries on) between the labelled ones
                             bad_rate=rng.choice([0.0, 0.0, 0.2]),
                             bad_kinds=("shape", "rank", "missing"))
    return C.base_case(rng, hist)


def run_case(case):
    res = esess.run_history(case, ["C11"])
    hist = case["hist"]
    muts = sum(1 for s in hist["sessions"]
               for w in (s.get("writes") or
                         [x for ws in s.get("writers", []) for x in ws])
               if w.get("meta", [""])[0] == "mut")
    nests = sum(1 for s in hist["sessions"]
                for w in (s.get("writes") or
                          [x for ws in s.get("writers", []) for x in ws])
                if w.get("meta", [""])[0] == "nest")
    res.setdefault("faults", {})["metadata_object_mutated_in_place"] = muts
    res["faults"]["nested_value_of_metadata_object_mutated_in_place"] = nests
    return res


shrink = esess.shrink_history


def reach(agg):
    need = []
    if not agg["stats"].get("labelled_examples_checked"):
        need.append("no labelled example checked")
    if not agg["stats"].get("metadata_selections_checked"):
        need.append("no selection by metadata exercised")
    if not agg["faults"].get("metadata_object_mutated_in_place"):
        need.append("aliasing fault never injected")
    if not agg["faults"].get(
            "nested_value_of_metadata_object_mutated_in_place"):
        need.append("nested aliasing fault never injected")
    return need
