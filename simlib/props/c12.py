"""C12 - shard selection options mean the same thing in every interface."""
from __future__ import annotations

import collections
import hashlib
import json
import random

from simlib import bootstrap, dsgen, eread, sched as S
from simlib.props import c02

ID = "C12"
LEVEL = "exploration"
TECHNIQUE = ("deterministic simulation harness (E-read): one dataset handle, "
             "a seeded sequence of selections (first-k, predicate, "
             "per-metadata limit, combinations) through every interface that "
             "accepts the option, concurrent ones under their seeded "
             "schedules; oracle = documented rule applied to an independently "
             "walked shard table")
RULE = ("case = dataset with several shards and (often non-contiguous) "
        "metadata groups + 3..5 selections on ONE handle, each: interface in "
        "{sync, conc, async, rust, tfdata} x shards=k (1..n+2) x shard_filter "
        "(by metadata / by file set / matching nothing) x "
        "custom_metadata_type_limit (1..group+1, where accepted) x shuffle "
        "0/3. Oracle: yielded multiset == examples of the shards selected by "
        "filter -> non-empty check -> first-k -> per-metadata limit over the "
        "shard table; empty selection raises. Non-trivial = >= 3 shards; "
        "distinct = SHA-1 of selections + outcomes.")
ASSUMPTIONS = c02.ASSUMPTIONS + [
    "the selection routine is schedule independent; the simulator contributes "
    "that every interface incl. the concurrent ones is exercised under its "
    "schedules with the option on"]
REAL_STUB = c02.REAL_STUB


def budget(tier):
    if tier == "quick":
        return {"wall_s": 35.0, "max_cases": 10**9, "case_timeout": 120.0}
    return {"wall_s": 360.0, "max_cases": 10**9, "case_timeout": 180.0}


def setup(tier, build=True):
    if build:
        bootstrap.build_rust()


def gen_case(rng, tier, index):
    fmt = rng.choice(["fb", "fb", "fb", "npz", "npz", "tfrec"])
    comp = rng.choice(dsgen.RUST_COMPRESSIONS) if fmt == "fb" else None
    hist = eread.read_hist(rng, fmt=fmt, compression=comp, max_sessions=2,
                           meta_modes=("runs", "runs", "some"),
                           eps=rng.choice([1, 2, 2, 3]))
    sels = []
    for _ in range(rng.randrange(3, 6)):
        sels.append({
            "iface": rng.choice(["sync", "conc", "conc", "async", "rust",
                                 "tfdata" if rng.random() < 0.3 else "sync"]),
            "shards": rng.choice([None, None, 1, 2, 3, "n", "n+2", "n-1"]),
            "filter": rng.choice([None, None, "meta0", "meta1", "meta2",
                                  "files", "nothing", "empty_meta"]),
            "limit": rng.choice([None, None, 1, 1, 2, 3]),
            "shuffle": rng.choice([0, 0, 3]),
            "fp": rng.choice([1, 2, 3]),
            "file_bits": rng.getrandbits(16),
            "sched_seed": rng.getrandbits(48),
            "policy": rng.choice(S.POLICIES),
            # the default, repeating stream: the selection holds in every
            # epoch (three epochs' worth of examples are taken)
            "repeat": rng.random() < 0.3})
    case = {"hist": hist, "sels": sels, "seed": rng.getrandbits(32)}
    # equal metadata spelt with another key order inside nested dicts
    case["nested_reorder"] = rng.random() < 0.5
    return case


def make_filter(sel, table):
    f = sel["filter"]
    if f is None:
        return None
    if f.startswith("meta") and f != "meta":
        val = dsgen.META_VALUES[int(f[4:])]
        return lambda s: s.custom_metadata == val
    if f == "empty_meta":
        return lambda s: not s.custom_metadata
    if f == "nothing":
        return lambda s: False
    chosen = {x["path"] for i, x in enumerate(table)
              if (sel["file_bits"] >> (i % 16)) & 1}
    return lambda s: str(s.file_infos[0].file_path) in chosen


def model_filter(sel, table):
    f = sel["filter"]
    if f is None:
        return list(table)
    if f.startswith("meta") and f != "meta":
        val = dsgen.META_VALUES[int(f[4:])]
        return [x for x in table if x["meta"] == val]
    if f == "empty_meta":
        return [x for x in table if not x["meta"]]
    if f == "nothing":
        return []
    return [x for i, x in enumerate(table)
            if (sel["file_bits"] >> (i % 16)) & 1]


def canon_key(meta):
    # equal JSON values = one group, whatever the key order at any depth
    return json.dumps(meta, sort_keys=True, ensure_ascii=True)


NESTED_VALUE = {"k": "c", "deep": {"x": 1, "y": [2, {"p": 1, "q": 2}],
                                   "z": {"b": 1, "a": 2}}}


def _writes(hist):
    for ses in hist["sessions"]:
        yield from ses.get("writes", [])
        for ws in ses.get("writers", []):
            yield from ws


def expected_selection(sel, table, n, limit_applies):
    shards = model_filter(sel, table)
    if not shards:
        return None  # must raise
    k = {"n": n, "n+2": n + 2, "n-1": max(1, n - 1)}.get(sel["shards"],
                                                         sel["shards"])
    if k:
        shards = shards[:k]
    if sel["limit"] and limit_applies:
        counts = collections.Counter()
        kept = []
        for x in shards:
            key = canon_key(x["meta"])
            counts[key] += 1
            if counts[key] <= sel["limit"]:
                kept.append(x)
        shards = kept
    return shards


ACCEPTS_LIMIT = {"sync": True, "conc": True, "tfdata": True, "async": False,
                 "rust": False}


def run_case(case):
    saved = dsgen.META_VALUES[4]
    try:
        if case.get("nested_reorder"):
            dsgen.META_VALUES[4] = NESTED_VALUE
        return _run_case(case)
    finally:
        dsgen.META_VALUES[4] = saved


def _run_case(case):
    hist = case["hist"]
    if case.get("nested_reorder"):
        import copy
        hist = copy.deepcopy(hist)
        for w in _writes(hist):
            m = w.get("meta")
            if (m and m[0] in ("val", "same") and
                    m[1] % len(dsgen.META_VALUES) == 4 and w["id"] % 2):
                m[0] = "nreord"
    st = hist["structure"]
    out = {"ok": True}
    h = hashlib.sha1()
    stats = collections.Counter()
    probes = collections.Counter()
    bootstrap.sedpack_io()
    nshards = 0
    sample = []
    with eread.ReadEnv(hist, case["seed"]) as env:
        splits = [s for s in hist["splits"] if env.model.ids(s)]
        if not splits:
            return {"ok": True, "digest": "empty", "nontrivial": False,
                    "probes": {"empty_dataset": 1}}
        split = splits[0]
        table = env.shard_table(split)
        nshards = len(table)
        groups = collections.Counter(canon_key(x["meta"]) for x in table)
        runs = sum(1 for i, x in enumerate(table)
                   if i == 0 or canon_key(table[i - 1]["meta"]) != canon_key(
                       x["meta"]))
        if runs > len(groups):
            probes["non_contiguous_metadata_groups"] += 1
        ds = env.open()  # ONE handle for the whole sequence of selections
        random.seed(case["seed"])
        for sel in case["sels"]:
            iface = sel["iface"] if eread.supports(sel["iface"], st) else \
                "sync"
            use_limit = ACCEPTS_LIMIT[iface]
            exp = expected_selection(sel, table, nshards, use_limit)
            k = {"n": nshards, "n+2": nshards + 2,
                 "n-1": max(1, nshards - 1)}.get(sel["shards"], sel["shards"])
            repeat = bool(sel.get("repeat"))
            opts = {"repeat": repeat, "shuffle": sel["shuffle"],
                    "fp": sel["fp"], "shards": k,
                    "shard_filter": make_filter(sel, table),
                    "limit": sel["limit"] if use_limit else None}
            n_sel = sum(len(x["ids"]) for x in exp) if exp else 0
            take = 3 * n_sel + 2 if repeat else None
            if repeat and exp is None:
                take = 5
            rr = eread.run_reader(env, ds, iface, split, opts, k=take,
                                  seed=sel["sched_seed"],
                                  policy=sel["policy"])
            if repeat:
                probes["repeating_stream"] += 1
            ctx = (f"{iface} {st['fmt']} shards_in_split={nshards} shards={k} "
                   f"filter={sel['filter']} limit={opts['limit']} "
                   f"shuffle={sel['shuffle']}")
            got = collections.Counter(i for i, _ in rr.items)
            key = {"engine": "E-read", "iface": iface,
                   "fmt_is_tfrec": st["fmt"] == "tfrec",
                   "option": "limit" if opts["limit"] else
                   "filter" if sel["filter"] else
                   "shards" if k else "none"}
            if rr.deadlock:
                out.update(ok=False, vclass="deadlock", key=key,
                           detail=f"{ctx}: {rr.deadlock}")
            elif exp is None:
                probes["empty_selection"] += 1
                if rr.exc is None:
                    out.update(ok=False, vclass="empty_selection_not_an_error",
                               key=key, detail=f"{ctx}: pass ended normally "
                               f"with {sum(got.values())} examples")
            elif rr.exc is not None:
                out.update(ok=False, vclass="selection_raised", key=key,
                           detail=f"{ctx}: {type(rr.exc).__name__}: "
                           f"{str(rr.exc)[:200]}")
            elif repeat:
                want = collections.Counter(i for x in exp for i in x["ids"])
                outside = sorted(i for i in got if i not in want)
                unseen = sorted(i for i in want if i not in got)
                if outside or (unseen and not sel["shuffle"]) or \
                        sum(got.values()) < take:
                    out.update(
                        ok=False, vclass="wrong_selection", key=key,
                        detail=f"{ctx} repeat=True, {take} examples taken "
                        f"(3 epochs of the selection): outside the selection "
                        f"{outside[:8]}, never seen {unseen[:8]}, got "
                        f"{sum(got.values())}")
            else:
                want = collections.Counter(i for x in exp for i in x["ids"])
                if got != want:
                    out.update(
                        ok=False, vclass="wrong_selection", key=key,
                        detail=f"{ctx}: expected shards "
                        f"{[table.index(x) for x in exp]} of metas "
                        f"{[x['meta'] for x in table]}; missing "
                        f"{sorted((want - got).elements())[:8]} extra "
                        f"{sorted((got - want).elements())[:8]}")
            if not out["ok"]:
                break
            probes["iface_" + iface] += 1
            if opts["limit"]:
                probes["limit_option"] += 1
                if exp is not None and len(exp) < len(
                        expected_selection(sel, table, nshards, False) or []):
                    probes["limit_actually_drops_shards"] += 1
            if k and k < nshards:
                probes["first_k_truncates"] += 1
            if sel["filter"]:
                probes["filter_option"] += 1
            stats["selections_checked"] += 1
            h.update(repr((iface, k, sel["filter"], opts["limit"],
                           sorted(got.items()))).encode())
            if rr.sched is not None:
                stats["scheduler_decisions"] += rr.sched.steps
            sample.append({"iface": iface, "shards": k,
                           "filter": sel["filter"], "limit": opts["limit"],
                           "selected": None if exp is None else
                           [table.index(x) for x in exp]})
    out.setdefault("key", {"engine": "E-read"})
    out.update({"digest": h.hexdigest(), "nontrivial": nshards >= 3,
                "stats": dict(stats), "probes": dict(probes),
                "sample": {"structure": st, "shard_metas":
                           [x["meta"] for x in table][:12],
                           "selections": sample}})
    return out


def shrink(case):
    sels = case["sels"]
    if len(sels) > 1:
        for i in range(len(sels)):
            c = dict(case)
            c["sels"] = sels[:i] + sels[i + 1:]
            yield c
    from simlib import esess
    for c in esess.shrink_history(case):
        yield c


def reach(agg):
    need = []
    p = agg["probes"]
    for name in ("iface_sync", "iface_conc", "iface_async", "limit_option",
                 "limit_actually_drops_shards", "first_k_truncates",
                 "filter_option", "empty_selection", "repeating_stream",
                 "non_contiguous_metadata_groups"):
        if not p.get(name):
            need.append(f"probe {name} never hit")
    return need
