"""C13 - the lazy thread pool under every interleaving (engine E-pool).

The *real* LazyPool/Collector code (lazy_pool.py from the working tree, loaded
with queue/threading/time simulated) runs on the baton scheduler.
"""
from __future__ import annotations

import collections
import itertools
import random

from simlib import bootstrap, sched as S

ID = "C13"
LEVEL = "exploration"
# a worker that hangs or blows up in native code while running a case of this
# property is re-run in a sandboxed interpreter; a second hang is the verdict
HANG_IS_VIOLATION = True
TECHNIQUE = ("deterministic simulation: real LazyPool on a seeded baton "
             "scheduler (queue-operation and line-level pre-emption), exact "
             "deadlock detection, fault = mapped function raising")
RULE = ("case = (T, n or infinite, failing input positions, consumer mode "
        "full/early-exit at p, pool reuse, scheduler policy, seed); generated "
        "from sha256(VERIF_SEED:C13:i). Non-trivial = at least one scheduling "
        "decision had more than one runnable thread; distinct = distinct SHA-1 "
        "of the full event log (every queue operation, thread switch and "
        "result).")
ASSUMPTIONS = [
    "queue.Queue / threading / time.sleep are replaced by simulated versions "
    "with the documented blocking semantics (FIFO, unbounded put, blocking "
    "get); CPython's own queue implementation is trusted",
    "pre-emption granularity: every queue/lock/sleep operation, thread "
    "start/exit, every call of the mapped function and (in a fraction of "
    "runs) every source line of lazy_pool.py; not bytecode level",
]
REAL_STUB = {
    "real": ["sedpack/io/itertools/lazy_pool.py (LazyPool, Collector, "
             "StopSentinel) from the working tree", "OS threads"],
    "simulated": ["queue.Queue", "threading.Thread scheduling", "time.sleep",
                  "which thread runs next (seeded)"],
}
STATE_MEASURE = ("event digest = SHA-1 over every queue op/thread switch; "
                 "abstract state = hash(len(to_process), len(results), task "
                 "states) at each decision")


def budget(tier: str) -> dict:
    if tier == "quick":
        return {"wall_s": 25.0, "max_cases": 10**9, "case_timeout": 40.0}
    return {"wall_s": 420.0, "max_cases": 10**9, "case_timeout": 30.0}


def gen_case(rng: random.Random, tier: str, index: int) -> dict:
    T = rng.choice([1, 1, 2, 2, 3, 3, 4, 5, 6] if tier == "quick" else
                   [1, 2, 3, 4, 5, 6, 7, 8, 10])
    # n around T and around the prefill threshold 2T+2
    anchors = [0, 1, T - 1, T, T + 1, 2 * T, 2 * T + 1, 2 * T + 2, 2 * T + 3,
               2 * T + 5]
    n = rng.choice(anchors + [rng.randrange(0, 2 * T + 6), -1] + (
        [4 * T + 3, 6 * T + 1] if tier != "quick" else []))
    n = max(-1, n)
    nfail = rng.choice([0, 0, 0, 1, 1, 2])
    span = n if n >= 0 else 3 * T + 4
    fails = sorted({rng.randrange(span) for _ in range(nfail)}) if span else []
    if n == -1:
        mode = "early"
    else:
        mode = rng.choice(["full", "full", "early"])
    p = rng.randrange(0, (n if n >= 0 else 3 * T + 6) + 1)
    policy = rng.choice(["random", "random", "pct", "starve", "run_to_block",
                         "round_robin"])
    return {
        "T": T, "n": n, "fails": fails, "mode": mode, "p": p,
        "reuse": rng.random() < 0.6,
        # the abandoned iterator of the first call is still referenced when
        # the pool is reused and is closed in the middle of the second call
        "keep_old_iter": rng.random() < 0.3,
        "close_old_at": rng.randrange(0, 2 * T + 5),
        "n2": rng.randrange(0, 2 * T + 5),
        "fail_in_second": rng.random() < 0.1,
        # both calls inside one `with` block (the first one may have failed
        # and been caught by the caller, or been abandoned early)
        "same_ctx": rng.random() < 0.4,
        "policy": policy,
        "policy_param": rng.randrange(0, T + 1) if policy == "starve" else
        rng.choice([1, 2, 3]),
        "sched_seed": rng.getrandbits(48),
        "line": rng.random() < (0.15 if tier == "quick" else 0.3),
        "max_steps": 20000 if tier == "quick" else 60000,
        # a second, independent pool consumed in an interleaved fashion by the
        # same consumer (train / validation iterators of one training loop)
        "pool2": ({"T": rng.choice([1, 2, 3]), "n": rng.randrange(0, 9),
                   "pattern": rng.getrandbits(24)}
                  if rng.random() < 0.25 else None),
    }


class _Boom(Exception):
    pass


class _Entered:
    """`with pool:` whose block is left open (the caller catches the error of
    the first call inside the block and goes on using the pool)."""

    def __init__(self, pool):
        self.pool = pool

    def __enter__(self):
        return self.pool.__enter__()

    def __exit__(self, *exc):
        return False


class _Exiting:
    """The rest of the `with pool:` block opened by `_Entered`."""

    def __init__(self, pool):
        self.pool = pool

    def __enter__(self):
        return self.pool

    def __exit__(self, *exc):
        return self.pool.__exit__(*exc)


def run_case(case: dict) -> dict:
    lp = bootstrap.sim_lazy_pool()
    rng = random.Random(case["sched_seed"])
    T, n = case["T"], case["n"]
    fails = set(case["fails"])
    sc = S.Sched(rng, policy=case["policy"], policy_param=case["policy_param"],
                 choices=case.get("choices"), max_steps=case["max_steps"],
                 trace_files=(bootstrap.LAZY_POOL_PY,) if case["line"] else (),
                 line_prob=0.35 if case["line"] else 0.0)
    pulled = [0]

    def source(k):
        it = itertools.count() if k < 0 else iter(range(k))
        for x in it:
            pulled[0] += 1
            yield x

    def f(x):
        s = S.current()
        if s is not None:
            s.yield_("func")
        if x in fails:
            raise _Boom(f"input {x}")
        return ("r", x)

    def f2(x):
        s = S.current()
        if s is not None:
            s.yield_("func2")
        if case["fail_in_second"] and x == 0:
            raise _Boom("second")
        return ("s", x)

    results: list = []
    out = {"ok": True, "vclass": None, "detail": ""}
    probes = collections.Counter()

    def fail(vclass: str, detail: str) -> None:
        if out["ok"]:
            out.update(ok=False, vclass=vclass, detail=detail)

    pool_queues = {}

    def state_fn():
        p = pool_queues.get("pool")
        if p is None:
            return None
        tp, rs = p._to_process, p._results  # pylint: disable=protected-access
        return (len(tp._q) if tp is not None else -1,
                len(rs._q) if rs is not None else -1)

    sc.state_fn = state_fn
    consumer_exc = None
    second_exc = None
    second: list = []
    with sc:
        try:
            pool = lp.LazyPool(T)
            pool_queues["pool"] = pool
            # ---------------------------------------------- first use
            p2 = case.get("pool2")
            other: list = []
            try:
                old_iter = None
                # (only after a call that ran to its end or failed: starting
                # a call while an abandoned one is still active is refused by
                # an assertion, as documented)
                same_ctx = bool(case.get("same_ctx") and case["reuse"] and
                                not p2 and case["mode"] == "full" and n >= 0)
                if not p2:
                    with (_Entered(pool) if same_ctx else pool):
                        gen1 = pool.imap_unordered(f, source(n))
                        if case.get("keep_old_iter"):
                            old_iter = gen1
                        for r in gen1:
                            results.append(r)
                            sc.log("result", r)
                            if case["mode"] == "early" and len(
                                    results) >= case["p"]:
                                break
                        del gen1
                else:
                    probes["two_pools_interleaved"] += 1
                    pool2 = lp.LazyPool(p2["T"])
                    with pool, pool2:
                        g1 = iter(pool.imap_unordered(f, source(n)))
                        g2 = iter(pool2.imap_unordered(
                            lambda x: ("o", x), range(p2["n"])))
                        live = [True, True]
                        step = 0
                        while any(live):
                            which = (p2["pattern"] >> (step % 24)) & 1
                            step += 1
                            if not live[which]:
                                which = 1 - which
                            try:
                                r = next(g1 if which == 0 else g2)
                            except StopIteration:
                                live[which] = False
                                continue
                            if which == 0:
                                results.append(r)
                                sc.log("result", r)
                                if case["mode"] == "early" and len(
                                        results) >= case["p"]:
                                    live[0] = False
                            else:
                                other.append(r)
            except (S.SimDeadlock, S.SimStepLimit):
                raise
            except Exception as e:  # pylint: disable=broad-except
                consumer_exc = e
            if p2 and consumer_exc is None and collections.Counter(
                    other) != collections.Counter(
                        ("o", x) for x in range(p2["n"])):
                fail("second_pool_wrong_multiset",
                     f"interleaved second pool T={p2['T']} n={p2['n']}: "
                     f"{sorted(other)}")
            sc.log("consumer_done", type(consumer_exc).__name__)
            # ---------------------------------------------- oracle, pass 1
            expected_all = collections.Counter(
                ("r", x) for x in (range(n) if n >= 0 else ())
                if x not in fails)
            got = collections.Counter(results)
            relevant_fail = bool(fails) and n != 0 and any(
                x < n or n < 0 for x in fails)
            if consumer_exc is not None:
                if not isinstance(consumer_exc, _Boom) and not relevant_fail:
                    fail("unexpected_exception",
                         f"{type(consumer_exc).__name__}: {consumer_exc}")
                if relevant_fail:
                    probes["func_error_reached_consumer"] += 1
            if case["mode"] == "full" and n >= 0:
                if relevant_fail:
                    if consumer_exc is None:
                        fail("func_error_swallowed",
                             f"inputs {sorted(fails)} raise but the pass "
                             f"ended normally with {len(results)} results")
                elif consumer_exc is None and got != expected_all:
                    fail("wrong_multiset",
                         f"T={T} n={n} missing={sorted((expected_all-got).elements())} "
                         f"extra={sorted((got-expected_all).elements())}")
            if n >= 0 and (got - expected_all):
                fail("wrong_multiset",
                     f"extra results {sorted((got-expected_all).elements())}")
            if n < 0:
                bad = [r for r in results
                       if not (r[0] == "r" and r[1] not in fails)]
                dup = [k for k, v in got.items() if v > 1]
                if bad or dup:
                    fail("wrong_multiset", f"bad={bad} dup={dup}")
            if (case["mode"] == "early" and consumer_exc is None and
                    len(results) < min(case["p"],
                                       sum(expected_all.values())
                                       if n >= 0 else case["p"]) and
                    not relevant_fail):
                fail("short_pass", f"wanted {case['p']} got {len(results)}")
            # ---------------------------------------------- reuse
            if same_ctx and not out["ok"]:
                pool.__exit__(None, None, None)
            if case["reuse"] and out["ok"]:
                try:
                    if same_ctx:
                        probes["reuse_in_same_context"] += 1
                        if consumer_exc is not None:
                            probes["reuse_in_same_context_after_failure"] += 1
                    with (_Exiting(pool) if same_ctx else pool):
                        for r in pool.imap_unordered(f2, source(case["n2"])):
                            second.append(r)
                            sc.log("result2", r)
                            if (old_iter is not None and
                                    len(second) > case.get("close_old_at", 0)):
                                old_iter.close()
                                old_iter = None
                                probes["old_iterator_closed_during_reuse"] += 1
                except (S.SimDeadlock, S.SimStepLimit):
                    raise
                except Exception as e:  # pylint: disable=broad-except
                    second_exc = e
                exp2 = collections.Counter(("s", x)
                                           for x in range(case["n2"]))
                f2_fails = case["fail_in_second"] and case["n2"] > 0
                if second_exc is not None and not (
                        f2_fails and isinstance(second_exc, _Boom)):
                    fail("reuse_failed",
                         f"{type(second_exc).__name__}: {second_exc}")
                elif second_exc is None and f2_fails:
                    fail("func_error_swallowed", "second use")
                elif second_exc is None and collections.Counter(
                        second) != exp2:
                    fail("reuse_wrong_multiset",
                         f"second use n2={case['n2']} got {sorted(second)}")
                probes["pool_reused"] += 1
            # ---------------------------------------------- workers finish
            try:
                sc.drain()
            except S.SimDeadlock as e:
                fail("workers_do_not_terminate", str(e))
        except S.SimDeadlock as e:
            fail("deadlock", f"T={T} n={n} fails={sorted(fails)} "
                 f"mode={case['mode']} p={case['p']} :: {e}")
            if any(t.exc is not None for t in sc.tasks):
                out["vclass"] = "deadlock_after_func_error"
        except S.SimStepLimit as e:
            fail("no_termination_within_budget", str(e))
        # Workers that died with an exception other than through the API
        died = [t for t in sc.tasks if t.exc is not None]
        if died:
            probes["worker_died"] += 1
    leaked = sc.leaked_threads()
    if leaked:
        out.setdefault("harness_error", f"{leaked} OS threads leaked")
    if n >= 0 and T <= n <= 2 * T + 2:
        probes["n_between_T_and_prefill"] += 1
    if n >= 0 and n < 2 * T + 2:
        probes["prefill_contained_sentinels"] += 1
    if case["mode"] == "early":
        probes["early_exit"] += 1
    probes.update(sc.probes)
    out.update({
        "digest": sc.digest(),
        "nontrivial": sc.multi_decisions > 0,
        "stats": {"scheduler_decisions": sc.steps,
                  "multi_candidate_decisions": sc.multi_decisions,
                  "events": sc.events,
                  "source_pulled": pulled[0]},
        "faults": {"mapped_function_raised": 1 if (fails and any(
            t.exc is not None for t in sc.tasks) or
            isinstance(consumer_exc, _Boom)) else 0},
        "probes": dict(probes),
        "states": list(sc.abstract_states)[:500],
        "key": {"engine": "E-pool",
                "has_failing_input": bool(fails) or bool(
                    case["fail_in_second"])},
        "choices": sc.choices_out,
        "sample": {"case": {k: v for k, v in case.items()
                            if not k.startswith("_")},
                   "results": [list(r) for r in results[:12]],
                   "consumer_exception": repr(consumer_exc)[:80],
                   "decisions": sc.steps},
    })
    if not out["ok"] and "choices" not in case:
        # make the replay independent of the policy code
        case["choices"] = list(sc.choices_out)
    return out


def shrink(case: dict):
    """Simpler candidates: fewer threads, fewer inputs, no reuse, fewer
    failing inputs, default scheduling decisions."""
    base = {k: v for k, v in case.items()}

    def variant(**kw):
        c = dict(base)
        c.pop("choices", None)  # structure changed: fall back to the policy
        c.update(kw)
        return c

    if case["reuse"]:
        yield variant(reuse=False)
    if case.get("same_ctx"):
        yield variant(same_ctx=False)
    if case.get("pool2"):
        yield variant(pool2=None)
    if case["line"]:
        yield variant(line=False)
    if case["T"] > 1:
        yield variant(T=case["T"] - 1)
    if case["n"] > 0:
        yield variant(n=case["n"] - 1,
                      fails=[x for x in case["fails"] if x < case["n"] - 1] or
                      case["fails"][:1])
        yield variant(n=case["n"] // 2,
                      fails=[x for x in case["fails"] if x < case["n"] // 2])
    if len(case["fails"]) > 1:
        yield variant(fails=case["fails"][:1])
    if case["fails"] and case["fails"][0] > 0:
        yield variant(fails=[0] + case["fails"][1:])
    if case["mode"] == "early" and case["n"] >= 0:
        yield variant(mode="full")
    if case["policy"] != "round_robin":
        yield variant(policy="round_robin")
    ch = case.get("choices")
    if ch:
        # shorten / zero the recorded decision list
        c = dict(base)
        c["choices"] = ch[:len(ch) // 2]
        yield c
        for i, v in enumerate(ch):
            if v:
                c = dict(base)
                c["choices"] = ch[:i] + [0] + ch[i + 1:]
                yield c
                break


def reach(agg: dict) -> list[str]:
    need = []
    p = agg["probes"]
    if agg["evaluations"] < 200:
        need.append("fewer than 200 runs")
    for name in ("reuse_in_same_context",
                 "reuse_in_same_context_after_failure",
                 "old_iterator_closed_during_reuse",
                 "prefill_contained_sentinels", "early_exit", "pool_reused",
                 "two_pools_interleaved",
                 "n_between_T_and_prefill"):
        if not p.get(name):
            need.append(f"probe {name} never hit")
    if not agg["faults"].get("mapped_function_raised"):
        need.append("fault mapped_function_raised never fired")
    return need
