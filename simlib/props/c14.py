"""C14 - iteration is lazy: read-ahead bounded by the configured buffers."""
from __future__ import annotations

import collections
import hashlib
import itertools
import math
import random

from simlib import bootstrap, dsgen, eread, sched as S, simloop
from simlib.props import c02

ID = "C14"
LEVEL = "exploration"
# a worker that hangs or blows up in native code while running a case of this
# property is re-run in a sandboxed interpreter; a second hang is the verdict
HANG_IS_VIOLATION = True
TECHNIQUE = ("deterministic simulation: counters at the source-iterator and "
             "open() seams while k elements are taken from short, long and "
             "infinite streams, under scheduler policies that let workers run "
             "as far ahead as the code allows (consumer starved)")
RULE = ("prim: shuffle_buffer / round_robin / LazyPool (+round_robin) over a "
        "counting source of length n1 << n2 or infinite, buffer b, threads T, "
        "take k; oracle at every yield: pulled - needed <= 4(b+T)+8 "
        "(independent of n). iface: dataset with few or many (40..90) shards, "
        "repeat on/off, shuffle in {0, small}, file_parallelism 1..4 or "
        "relative to the shard count (s-1, s, s+1), "
        "interfaces sync/conc/async; oracle at every yield: shard files "
        "opened <= ceil(k/min_shard_size) + 4(ceil(shuffle/min_shard_size)+T)"
        "+8; taking k from the infinite stream terminates within the step "
        "budget. Non-trivial = stream longer than the bound; distinct = "
        "distinct SHA-1 of scheduler trace + counter series.")
ASSUMPTIONS = [
    "the bound is deliberately generous and independent of the stream length "
    "so that only length-proportional or unbounded eagerness is flagged",
    "TFRecord and Rust file opens are invisible at the Python open() seam; "
    "the Rust read-ahead is measured in the Rust harness (C15 check)",
]
REAL_STUB = c02.REAL_STUB


def budget(tier):
    if tier == "quick":
        return {"wall_s": 35.0, "max_cases": 10**9, "case_timeout": 90.0}
    return {"wall_s": 420.0, "max_cases": 10**9, "case_timeout": 120.0}


def setup(tier, build=True):
    if build:
        bootstrap.build_rust()
        bootstrap.build_rustsim()


def gen_case(rng, tier, index):
    if rng.random() < 0.06:
        # the Rust worker pool: read-ahead measured in the Rust harness
        return {"kind": "harness", "seed": rng.getrandbits(48), "runs": 60,
                "max_n": rng.choice([12, 24, 40]), "max_T": rng.choice([3, 7])}
    if rng.random() < 0.04:
        # tf.data path (TFRecord): its C++ file opens are invisible at the
        # Python seam, so open shard files are counted in /proc/self/fd
        hist = eread.read_hist(rng, fmt="tfrec", n_examples=450, eps=3,
                               compression=rng.choice(["", "GZIP"]))
        return {"kind": "tfdata", "hist": hist,
                "fp": rng.choice([None, None, 1, 2, 3]),
                "shuffle": rng.choice([2, 5]), "repeat": rng.random() < 0.5,
                "k": rng.randrange(90, 130), "seed": rng.getrandbits(32)}
    if rng.random() < 0.55:
        T = rng.choice([1, 2, 3, 4, 6])
        b = rng.choice([1, 2, 3, 5, 8])
        n = rng.choice([-1, -1, 300, 1000, rng.randrange(3, 30)])
        return {"kind": "prim",
                "which": rng.choice(["shuffle", "rr", "pool", "pool_rr"]),
                "T": T, "b": b, "n": n, "inner": rng.choice([1, 2, 3]),
                "k": rng.randrange(0, 40), "seed": rng.getrandbits(32),
                "sched_seed": rng.getrandbits(48),
                "policy": rng.choice(["starve", "starve", "random", "pct",
                                      "run_to_block"]),
                "policy_param": 0}
    big = rng.random() < 0.6
    eps = rng.choice([1, 2])
    n_ex = rng.randrange(40, 90) * eps if big else rng.randrange(2, 9) * eps
    iface = rng.choice(["sync", "conc", "conc", "async", "rust"])
    if iface == "rust":
        # (file opens of the native reader are invisible at the Python seam:
        # only "taking k examples terminates, and so does dropping the
        # iterator" is decided here; its read-ahead is measured in the Rust
        # harness family)
        big = False
        n_ex = rng.randrange(3, 12) * eps
    hist = eread.read_hist(rng, formats=("fb",) if iface == "rust" else
                           ("fb", "npz"), n_examples=n_ex, eps=eps,
                           compression=rng.choice(dsgen.RUST_COMPRESSIONS)
                           if iface == "rust" else None)
    return {"kind": "iface", "hist": hist,
            "iface": iface,
            # (Rust: take less than, about, or more than one epoch)
            "k_epochs": rng.choice([0, 0, 1, 1, 2, 3]),
            "k_extra": rng.randrange(0, 7),
            "repeat": rng.random() < 0.5,
            "shuffle": rng.choice([0, 0, 1, 3]),
            # ("s": as many readers as the split has shards, and around it)
            "fp": rng.choice([1, 2, 3, 4, "s", "s", "s+1", "s-1"]),
            "k": rng.randrange(1, 8), "seed": rng.getrandbits(32),
            "sched_seed": rng.getrandbits(48),
            "policy": rng.choice(["starve", "starve", "random", "pct"]),
            "policy_param": 0,
            # virtual seconds the async consumer spends per example
            "pause": rng.choice([0.0, 0.0, 0.5, 5.0]),
            # many epochs' worth of examples from a repeating stream: a
            # read-ahead that grows with what was consumed shows up
            "k_long": rng.choice([0, 0, 0, 60, 150, 400]),
            # the consumer works on every example (scheduling points between
            # examples: readers that may run ahead do)
            "consumer_works": rng.random() < 0.5}


def run_prim(case):
    it = c02.itertools_mod()
    T, b, n, k, inner = case["T"], case["b"], case["n"], case["k"], case[
        "inner"]
    which = case["which"]
    random.seed(case["seed"])
    pulled = [0]
    out = {"ok": True}
    h = hashlib.sha1()
    series = []

    def source():
        rng = itertools.count() if n < 0 else range(n)
        for x in rng:
            pulled[0] += 1
            yield x

    def inner_iters():
        for x in source():
            yield iter([(x, j) for j in range(inner)])

    bound_extra = 4 * ((b if which in ("shuffle", "rr") else 0) +
                       (T if which in ("pool", "pool_rr") else 0)) + 8
    sc = None

    def check(nyield):
        if which == "shuffle":
            needed = nyield
        elif which == "rr":
            needed = math.ceil(nyield / inner)
        elif which == "pool":
            needed = nyield
        else:
            needed = math.ceil(nyield / inner)
        series.append(pulled[0])
        if pulled[0] - needed > bound_extra:
            raise AssertionError(
                f"{which} b={b} T={T} n={n}: after {nyield} outputs "
                f"{pulled[0]} source elements were consumed (needed "
                f"{needed}, allowed slack {bound_extra})")

    try:
        if which == "shuffle":
            g = it.shuffle_buffer(source(), buffer_size=b)
            for i, _ in enumerate(itertools.islice(g, k)):
                check(i + 1)
        elif which == "rr":
            g = it.round_robin(inner_iters(), buffer_size=b)
            for i, _ in enumerate(itertools.islice(g, k)):
                check(i + 1)
        else:
            lp = bootstrap.sim_lazy_pool()
            sc = S.Sched(random.Random(case["sched_seed"]),
                         policy=case["policy"], policy_param=0,
                         choices=case.get("choices"), max_steps=60000)

            def f(x):
                s = S.current()
                if s is not None:
                    s.yield_("func")
                return [(x, j) for j in range(inner)] if which == "pool_rr" \
                    else x

            with sc:
                try:
                    with lp.LazyPool(T) as pool:
                        g = pool.imap_unordered(f, source())
                        if which == "pool_rr":
                            g = it.round_robin(g, buffer_size=T)
                        i = 0
                        if k:
                            for _ in g:
                                i += 1
                                check(i)
                                if i >= k:
                                    break
                    sc.drain()
                except S.SimDeadlock as e:
                    out.update(ok=False, vclass="deadlock", detail=str(e))
                except S.SimStepLimit as e:
                    out.update(ok=False, vclass="take_k_does_not_terminate",
                               detail=f"{which} T={T} n={n} k={k}: {e}")
            h.update(sc.digest().encode())
    except AssertionError as e:
        out.update(ok=False, vclass="read_ahead_exceeds_bound", detail=str(e))
    h.update(repr(series).encode())
    out.update({
        "digest": h.hexdigest(),
        "nontrivial": n < 0 or n > bound_extra + k,
        "stats": {"prim_runs": 1, "scheduler_decisions": sc.steps if sc else 0,
                  "max_pulled": max(series) if series else 0},
        "probes": {"prim_" + which: 1, "infinite_stream": int(n < 0),
                   "consumer_starved": int(case["policy"] == "starve" and
                                           sc is not None)},
        "key": {"engine": "E-pool", "which": which},
        "sample": {"case": {k_: v for k_, v in case.items()
                            if not k_.startswith("_")},
                   "pulled_at_each_yield": series[:20]},
    })
    if not out["ok"] and sc is not None and "choices" not in case:
        case["choices"] = list(sc.choices_out)
    return out


def run_iface(case):
    hist = case["hist"]
    st = hist["structure"]
    out = {"ok": True}
    h = hashlib.sha1()
    iface = case["iface"]
    bootstrap.sedpack_io()
    if not eread.supports(iface, st):
        iface = "sync"
    with eread.ReadEnv(hist, case["seed"]) as env:
        split = hist["splits"][0]
        table = env.shard_table(split)
        n_shards = len(table)
        min_size = min(len(x["ids"]) for x in table)
        fp = {"s": n_shards, "s+1": n_shards + 1,
              "s-1": max(1, n_shards - 1)}.get(case["fp"], case["fp"])
        if fp == n_shards:
            boundary = 1
        else:
            boundary = 0
        T = fp if iface != "sync" else 0
        b_shards = math.ceil(case["shuffle"] / min_size) + (
            1 if case["shuffle"] else 0)
        slack = 4 * (b_shards + T) + 8
        opts = {"repeat": case["repeat"], "shuffle": case["shuffle"],
                "fp": fp}
        random.seed(case["seed"])
        total = sum(len(x["ids"]) for x in table)
        long_take = 0
        k = case["k"] if case["repeat"] else min(case["k"], total)
        if case.get("k_long") and case["repeat"] and iface != "rust":
            k = case["k_long"]
            long_take = 1
        if iface == "rust":
            k = case.get("k_epochs", 0) * total + case.get("k_extra", 1)
            k = max(1, k if case["repeat"] else min(k, total))
        if iface == "rust":
            # native threads: a forked child under a watchdog (taking k
            # examples and dropping the iterator must both come back)
            ds_r = env.open()

            def child():
                r = eread.run_reader(env, ds_r, "rust", split, opts, k=k)
                return (type(r.exc).__name__ if r.exc is not None else None,
                        str(r.exc)[:200], r.items)

            with env.fs.suspended():
                status, val = eread.forked(child, 45.0)
            rr = eread.ReaderRun()
            if status == "hang":
                rr.deadlock = ("no result within 45 s (forked child, "
                               "observed by watchdog)")
            elif status == "ok":
                if val[0] is not None:
                    rr.exc = RuntimeError(f"{val[0]}: {val[1]}")
                rr.items = val[2]
            else:
                rr.exc = RuntimeError(str(val)[:200])
        else:
            rr = eread.run_reader(
                env, env.open(), iface, split, opts, k=k,
                seed=case["sched_seed"], policy=case["policy"],
                policy_param=0, choices=case.get("choices"),
                max_steps=150000, pause=case.get("pause", 0.0),
                consumer_works=bool(case.get("consumer_works")))
        ctx = (f"{iface} {st['fmt']} shards={n_shards} repeat={case['repeat']}"
               f" shuffle={case['shuffle']} fp={fp} take={k}")
        if rr.deadlock:
            out.update(ok=False, vclass="take_k_does_not_terminate",
                       detail=f"{ctx}: {rr.deadlock}")
        elif rr.exc is not None:
            out.update(ok=False, vclass="unexpected_exception",
                       detail=f"{ctx}: {type(rr.exc).__name__}: {rr.exc}")
        elif len(rr.items) < k:
            out.update(ok=False, vclass="short_stream",
                       detail=f"{ctx}: got {len(rr.items)}")
        else:
            series = rr.opens_at_yield if iface != "async" else [
                len(env.opens)]
            if iface == "rust":
                series = []  # native opens are not seen here
            kk = list(range(1, len(series) + 1)) if iface != "async" else [k]
            for nyield, opened in zip(kk, series):
                needed = math.ceil(nyield / min_size)
                if opened - needed > slack:
                    out.update(
                        ok=False, vclass="read_ahead_exceeds_bound",
                        detail=f"{ctx}: after {nyield} examples {opened} "
                        f"shard files had been opened (needed <= {needed}, "
                        f"allowed slack {slack})")
                    break
            # total opens after abandoning the iterator
            final = len(env.opens)
            if iface == "rust":
                final = 0
            if out["ok"] and final - math.ceil(k / min_size) > slack:
                out.update(
                    ok=False, vclass="read_ahead_exceeds_bound",
                    detail=f"{ctx}: {final} shard files opened in total for "
                    f"{k} examples (allowed slack {slack})")
            h.update(repr(series).encode())
        if rr.sched is not None:
            h.update(rr.sched.digest().encode())
        stats = {"iface_runs": 1, "shard_opens": len(env.opens),
                 "scheduler_decisions": rr.sched.steps if rr.sched else 0}
        probes = {"iface_" + iface: 1, "many_shards": int(n_shards >= 40),
                  "long_take_from_repeating_stream": long_take,
                  "parallelism_equals_shard_count": boundary,
                  "slow_async_consumer": int(iface == "async" and
                                             bool(case.get("pause"))),
                  "repeat_stream": int(case["repeat"]),
                  "consumer_starved": int(case["policy"] == "starve" and
                                          iface == "conc")}
    out.update({
        "digest": h.hexdigest(),
        "nontrivial": n_shards > slack + k or case["repeat"],
        "stats": stats, "probes": probes,
        "key": {"engine": "E-read", "iface": iface},
        "sample": {"iface": iface, "opts": opts, "take": k,
                   "shards": n_shards, "opens_at_each_yield":
                   rr.opens_at_yield[:12], "slack": slack},
    })
    if not out["ok"] and rr.sched is not None and "choices" not in case:
        case["choices"] = list(rr.sched.choices_out)
    return out


def run_tfdata(case):
    import os
    hist = case["hist"]
    st = hist["structure"]
    out = {"ok": True}
    bootstrap.sedpack_io()
    series = []
    with eread.ReadEnv(hist, case["seed"]) as env:
        split = hist["splits"][0]
        root = os.path.realpath(env.root)
        ds = env.open()
        fp = case["fp"]
        t_eff = fp or len(os.sched_getaffinity(0))
        slack = 4 * t_eff + 8

        def open_shards():
            n = 0
            for fd in os.listdir("/proc/self/fd"):
                try:
                    tgt = os.readlink(f"/proc/self/fd/{fd}")
                except OSError:
                    continue
                if tgt.startswith(root) and tgt.endswith(".tfrec"):
                    n += 1
            return n

        tfds = ds.as_tfdataset(split=split, batch_size=0, prefetch=2,
                               file_parallelism=fp, parallelism=2,
                               shuffle=case["shuffle"],
                               repeat=case["repeat"])
        it = iter(tfds.as_numpy_iterator())
        ctx = (f"tfdata tfrec shards=150 file_parallelism={fp} "
               f"shuffle={case['shuffle']} repeat={case['repeat']}")
        for j in range(case["k"]):
            next(it)
            series.append(open_shards())
            if series[-1] > slack:
                out.update(
                    ok=False, vclass="read_ahead_exceeds_bound",
                    detail=f"{ctx}: {series[-1]} shard files open at once "
                    f"after {j + 1} examples (allowed {slack}, independent "
                    f"of the number of shards)")
                break
        del it
    out.update({"digest": hashlib.sha1(repr((case["fp"], case["shuffle"],
                                             out["ok"])).encode()).hexdigest(),
                "nontrivial": True,
                "stats": {"tfdata_runs": 1},
                "probes": {"iface_tfdata": 1,
                           "tfdata_parallelism_none": int(case["fp"] is None)},
                "key": {"engine": "E-read", "iface": "tfdata"},
                "sample": {"iface": "tfdata", "file_parallelism": case["fp"],
                           "open_shard_files_at_each_yield": series[::10]}})
    return out


def run_case(case):
    if case["kind"] == "tfdata":
        return run_tfdata(case)
    if case["kind"].startswith("harness"):
        from simlib.props import c15
        res = c15.run_harness(case)
        if not res["ok"] and res.get("vclass") != "read_ahead_exceeds_bound":
            # ordering / deadlock verdicts of the harness belong to C15
            res.update(ok=True, vclass=None, detail="")
        res.setdefault("probes", {})["rust_harness"] = 1
        res["key"] = {"engine": "E-rust"}
        return res
    return run_prim(case) if case["kind"] == "prim" else run_iface(case)


def shrink(case):
    for key in ("k", "T", "b", "fp", "shuffle"):
        if key in case and isinstance(case[key], int) and case[key] > 1:
            c = dict(case)
            c.pop("choices", None)
            c[key] = case[key] - 1
            yield c


def reach(agg):
    need = []
    p = agg["probes"]
    for name in ("prim_shuffle", "prim_rr", "prim_pool", "prim_pool_rr",
                 "infinite_stream", "consumer_starved", "iface_sync",
                 "iface_conc", "iface_async", "iface_rust", "many_shards",
                 "repeat_stream",
                 "rust_harness", "slow_async_consumer", "iface_tfdata",
                 "parallelism_equals_shard_count"):
        if not p.get(name):
            need.append(f"probe {name} never hit")
    return need
