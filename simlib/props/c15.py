"""C15 - the Rust reader equals the Python reader for every thread count and
timing (engine E-rust + end-to-end through the freshly built extension)."""
from __future__ import annotations

import collections
import hashlib
import itertools
import json
import os
import random
import subprocess
import time

from simlib import bootstrap, dsgen, eread, fslayer
from simlib.props import c02

ID = "C15"
LEVEL = "exploration"
# a worker that hangs or blows up in native code while running a case of this
# property is re-run in a sandboxed interpreter; a second hang is the verdict
HANG_IS_VIOLATION = True
TECHNIQUE = ("deterministic simulation of the Rust parallel_map: a harness "
             "binary (path dependency on the working tree) gates the mapped "
             "function and lets a seeded controller decide, at quiescence, "
             "which outstanding task completes next (exact deadlock verdict); "
             "plus end-to-end runs of the freshly built extension in forked "
             "children with a watchdog")
RULE = ("harness: n in 0..12, T in 1..7 (T <, =, > n), early drop after p "
        "outputs (p in 0..n+1) or full pass, release policy uniform / "
        "newest-first / oldest-first / mostly-newest, seed -> completion "
        "order; oracle: outputs in input order each once (prefix when "
        "dropped), consumer returns, worker threads gone after drop, pulls - "
        "outputs <= T+1 at every output, no deadlock. e2e: fb datasets in "
        "{'', LZ4, GZIP, ZLIB}, 1..3 attributes, threads 1..shards+2: "
        "unshuffled sequence == as_numpy_iterator, shuffled multiset equal, "
        "two Rust iterators interleaved in one process across an epoch "
        "roll-over, early abandonment at p (no hang, thread count back to "
        "baseline). Non-trivial = >=2 tasks outstanding at some point / >=2 "
        "shards; distinct = SHA-1 of (n, T, drop, release order).")
ASSUMPTIONS = [
    "below task-completion granularity (std::sync::mpsc, thread start-up) the "
    "operating system schedules; no loom/shuttle is available offline",
    "quiescence = every other thread of the harness process asleep on two "
    "consecutive polls of /proc/self/task/*/stat",
    "end-to-end runs are real, uncontrolled executions (forked child + "
    "watchdog)",
]
REAL_STUB = {
    "real": ["rust/src/parallel_map.rs (harness)", "the whole extension built "
             "from rust/ (end-to-end)", "RustGenerator / RustIter Python side"],
    "simulated": ["mapped function `fun` (gated) and source iterator "
                  "(counting) in the harness", "which outstanding task "
                  "completes next (seeded)"],
    "uncontrolled": ["std::sync::mpsc and thread scheduling inside the "
                     "extension in end-to-end runs"],
}


def budget(tier):
    if tier == "quick":
        return {"wall_s": 35.0, "max_cases": 10**9, "case_timeout": 200.0}
    return {"wall_s": 420.0, "max_cases": 10**9, "case_timeout": 240.0}


def setup(tier, build=True):
    if build:
        bootstrap.build_rust()
        bootstrap.build_rustsim()


def gen_case(rng, tier, index):
    if rng.random() < 0.55:
        big = tier != "quick"
        return {"kind": "harness", "seed": rng.getrandbits(48), "runs": 60,
                "max_n": rng.choice([6, 12, 12] + ([24, 40] if big else [])),
                "max_T": rng.choice([3, 7] + ([12, 16] if big else []))}
    hist = eread.read_hist(rng, fmt="fb",
                           compression=rng.choice(dsgen.RUST_COMPRESSIONS),
                           max_sessions=2, splits=rng.sample(dsgen.SPLITS, 2))
    # attribute layouts: explicit byte order in the declared dtype
    for a in hist["structure"]["attrs"]:
        if a["dtype"] not in ("uint8", "int8") and rng.random() < 0.4:
            a["dtype"] = rng.choice([">", "<", "="]) + {
                "int16": "i2", "int32": "i4", "int64": "i8", "uint16": "u2",
                "uint32": "u4", "uint64": "u8", "float16": "f2",
                "float32": "f4", "float64": "f8"}[a["dtype"]]
    return {"kind": "e2e", "hist": hist,
            "op": rng.choice(["sequence", "sequence", "shuffled", "two_iters",
                              "two_iters", "abandon", "abandon",
                              "two_threads", "damaged", "drop_one"] +
                             (["slow_consumer"] if rng.random() < 0.35
                              else []) +
                             (["slow_shard"] if rng.random() < 0.3
                              else [])),
            "pause": 2.5 if tier == "quick" else rng.choice([2.5, 6.0]),
            "fp_sel": rng.choice([1, 2, 3, "s", "s+2", "s-1", 9]),
            "p": rng.randrange(0, 12), "seed": rng.getrandbits(32)}


def judge(line: dict):
    n, T, drop = line["n"], line["T"], line["drop"]
    ctx = f"n={n} T={T} drop_after={drop} policy={line['policy']}"
    if line["deadlock"]:
        return ("deadlock", f"{ctx}: quiescent with no releasable task while "
                f"the consumer is unfinished (released {line['release']})")
    want = [2 * i + 1 for i in range(n)]
    if drop >= 0:
        want = want[:drop] if drop > 0 else []
    if line["outputs"] != want:
        return ("wrong_outputs", f"{ctx}: release order {line['release']} "
                f"gave {line['outputs']} expected {want}")
    if line["threads_after"] > line["threads_baseline"]:
        return ("threads_left_after_drop",
                f"{ctx}: {line['threads_after']} threads still alive "
                f"(baseline {line['threads_baseline']})")
    for j, pulls in enumerate(line["pulls"]):
        if pulls - (j + 1) > T + 1:
            return ("read_ahead_exceeds_bound",
                    f"{ctx}: {pulls} inputs pulled at output {j + 1}")
    if line["total_pulls"] > min(n, (len(line["outputs"]) + T + 1)):
        return ("read_ahead_exceeds_bound",
                f"{ctx}: {line['total_pulls']} inputs pulled in total for "
                f"{len(line['outputs'])} outputs")
    return None


def run_harness(case):
    out = {"ok": True}
    if case["kind"] == "harness_one":
        cmd = [bootstrap.RUSTSIM, "one", str(case["n"]), str(case["T"]),
               str(case["drop"]), str(case["seed"]), str(case["policy"])]
    else:
        cmd = [bootstrap.RUSTSIM, str(case["seed"]), str(case["runs"]),
               str(case["max_n"]), str(case["max_T"])]
    try:
        res = subprocess.run(cmd, capture_output=True, text=True, timeout=150,
                             check=False)
        text = res.stdout
    except subprocess.TimeoutExpired as e:
        text = (e.stdout or b"").decode() if isinstance(
            e.stdout, bytes) else (e.stdout or "")
        out.update(ok=False, vclass="harness_never_quiescent",
                   detail=f"{cmd[1:]}: no result within 150 s (a thread keeps "
                   f"running)", key={"engine": "E-rust"})
    lines = [json.loads(x) for x in text.splitlines() if x.startswith("{")]
    h = hashlib.sha1()
    stats = collections.Counter()
    probes = collections.Counter()
    digests = set()
    for ln in lines:
        stats["harness_runs"] += 1
        stats["tasks_released"] += len(ln["release"])
        h.update(json.dumps(ln, sort_keys=True).encode())
        if ln["max_in_flight"] >= 2:
            digests.add(hashlib.sha1(repr((ln["n"], ln["T"], ln["drop"],
                                           ln["release"])).encode()
                                     ).hexdigest())
        if ln["release"] != sorted(ln["release"]):
            probes["out_of_order_completion"] += 1
        if ln["drop"] >= 0:
            probes["early_drop"] += 1
        if ln["T"] > ln["n"]:
            probes["threads_above_tasks"] += 1
        if ln["T"] == ln["n"]:
            probes["threads_equal_tasks"] += 1
        if ln["n"] == 0:
            probes["empty_input"] += 1
        bad = judge(ln)
        if bad and out["ok"]:
            out.update(ok=False, vclass=bad[0], detail=bad[1],
                       key={"engine": "E-rust"})
            if case["kind"] == "harness":
                # turn the replay into the single failing run
                case.update(kind="harness_one", n=ln["n"], T=ln["T"],
                            drop=ln["drop"], seed=ln["seed"],
                            policy=ln["policy"])
    out.update({"digest": h.hexdigest(), "nontrivial": bool(digests),
                "stats": dict(stats), "probes": dict(probes),
                "states": [int(d[:12], 16) for d in digests],
                "sample": lines[0] if lines else None})
    out.setdefault("key", {"engine": "E-rust"})
    return out


def thread_count() -> int:
    return len(os.listdir("/proc/self/task"))


def run_e2e(case):
    hist = case["hist"]
    st = hist["structure"]
    out = {"ok": True}
    bootstrap.sedpack_io()
    if not eread.supports("rust", st):
        return {"ok": True, "digest": "norust", "nontrivial": False,
                "probes": {"rust_extension_unavailable": 1}}
    probes = collections.Counter()
    stats = collections.Counter()
    h = hashlib.sha1()
    op = case["op"]
    with eread.ReadEnv(hist, case["seed"]) as env:
        splits = [s for s in hist["splits"] if env.model.ids(s)]
        if not splits:
            return {"ok": True, "digest": "empty", "nontrivial": False,
                    "probes": {"empty_dataset": 1}}
        table = env.shard_table(splits[0])
        n = len(table)
        fp = {"s": max(1, n), "s+2": n + 2,
              "s-1": max(1, n - 1)}.get(case["fp_sel"], case["fp_sel"])
        attrs = st["attrs"]
        ctx = (f"{op} fb/{st['compression']} attrs={len(attrs)} shards={n} "
               f"threads={fp}")
        random.seed(case["seed"])

        def ids(it, k=None):
            return [dsgen.canon(e, attrs) for e in itertools.islice(it, k)]

        def child():
            ds = env.open()
            a = splits[0]
            ref = dsgen.read_sync(ds, a, attrs)
            if op == "sequence":
                got = ids(ds.as_numpy_iterator_rust(
                    split=a, repeat=False, shuffle=0, file_parallelism=fp))
                return ("sequence", got == ref, [i for i, _ in got][:12],
                        [i for i, _ in ref][:12])
            if op == "slow_consumer":
                # clocks inside the extension cannot be virtualised: one real
                # pause of the consumer while workers sit idle (catches idle
                # time-outs up to the pause length only)
                got = []
                it = iter(ds.as_numpy_iterator_rust(
                    split=a, repeat=False, shuffle=0,
                    file_parallelism=max(1, min(fp, max(1, n - 1)))))
                for k, e in enumerate(it):
                    got.append(dsgen.canon(e, attrs))
                    if k == 0:
                        time.sleep(case.get("pause", 2.5))
                return ("slow_consumer", got == ref, [i for i, _ in got][:12],
                        [i for i, _ in ref][:12])
            if op == "drop_one":
                # two native iterators alive; the second is dropped early,
                # several times over, while the first is in the middle of its
                # pass: the first must not notice
                b = splits[-1]
                ita = iter(ds.as_numpy_iterator_rust(
                    split=a, repeat=False, shuffle=0, file_parallelism=fp))
                got = []
                for round_ in range(3):
                    itb = iter(ds.as_numpy_iterator_rust(
                        split=b, repeat=True, shuffle=0,
                        file_parallelism=max(1, fp - round_)))
                    for _ in range(1 + (case["p"] + round_) % 4):
                        next(itb)
                    got.extend(ids(ita, 1 + round_))
                    itb.close()
                    del itb
                    got.extend(ids(ita, 2))
                got.extend(ids(ita))
                return ("drop_one", got == ref, [i for i, _ in got][:12],
                        [i for i, _ in ref][:12])
            if op == "slow_shard":
                # clocks inside the extension cannot be virtualised: one shard
                # really takes 6.5 s to load (a FIFO fed late), the consumer
                # waits for it
                victim = os.path.join(env.root, table[
                    case["p"] % len(table)]["path"])
                with fslayer.real_open(victim, "rb") as f:
                    content = f.read()
                os.unlink(victim)
                os.mkfifo(victim)
                # (fed by another process: the consumer holds the GIL while it
                # waits inside the extension, a Python thread would never run)
                feeder = os.fork()
                if feeder == 0:
                    try:
                        from simlib.runner import die_with_parent
                        die_with_parent()
                        time.sleep(6.5)
                        fd = os.open(victim, os.O_WRONLY)
                        view = memoryview(content)
                        while view:
                            view = view[os.write(fd, view):]
                        os.close(fd)
                    finally:
                        os._exit(0)
                try:
                    got = ids(ds.as_numpy_iterator_rust(
                        split=a, repeat=False, shuffle=0,
                        file_parallelism=fp))
                finally:
                    try:
                        os.waitpid(feeder, 0)
                    except OSError:
                        pass
                return ("slow_shard", got == ref, [i for i, _ in got][:12],
                        [i for i, _ in ref][:12])
            if op == "two_threads":
                # two Python threads, each driving its own native iterator
                # (tf.data's from_generator calls generators from its threads)
                import threading
                outs = [None, None]
                b = splits[-1]
                refb = dsgen.read_sync(ds, b, attrs)

                def consume(slot, split_):
                    outs[slot] = ids(ds.as_numpy_iterator_rust(
                        split=split_, repeat=False, shuffle=0,
                        file_parallelism=fp))

                ts = [threading.Thread(target=consume, args=(0, a)),
                      threading.Thread(target=consume, args=(1, b))]
                for t in ts:
                    t.start()
                for t in ts:
                    t.join()
                return ("two_threads", outs == [ref, refb],
                        [[i for i, _ in (o or [])][:8] for o in outs],
                        [[i for i, _ in ref][:8], [i for i, _ in refb][:8]])
            if op == "damaged":
                # an unreadable shard: the Python reader raises; the native
                # reader must not end the pass normally either
                victim = table[case["p"] % n]
                os.unlink(os.path.join(env.root, victim["path"]))
                try:
                    dsgen.read_sync(ds, a, attrs)
                    py = "ends normally"
                except Exception:  # pylint: disable=broad-except
                    py = "raises"
                try:
                    got = ids(ds.as_numpy_iterator_rust(
                        split=a, repeat=False, shuffle=0,
                        file_parallelism=fp))
                    rs = f"ends normally after {len(got)} examples"
                except BaseException as e:  # pylint: disable=broad-except
                    rs = "raises"
                return ("damaged", py == "raises" and rs == "raises",
                        {"python": py, "rust": rs}, {"both": "raise"})
            if op == "shuffled":
                got = ids(ds.as_numpy_iterator_rust(
                    split=a, repeat=False, shuffle=7, file_parallelism=fp))
                return ("multiset", sorted(got) == sorted(ref),
                        sorted(i for i, _ in got)[:12],
                        sorted(i for i, _ in ref)[:12])
            if op == "two_iters":
                b = splits[-1]
                refb = dsgen.read_sync(ds, b, attrs)
                ita = iter(ds.as_numpy_iterator_rust(
                    split=a, repeat=True, shuffle=0, file_parallelism=fp))
                itb = iter(ds.as_numpy_iterator_rust(
                    split=b, repeat=False, shuffle=0,
                    file_parallelism=max(1, fp - 1)))
                gota, gotb = [], []
                # advance A across at least two epoch roll-overs while B
                # lives; which of the two native iterators is created first
                # is a seeded choice
                if case["seed"] & 4:
                    gota.append(dsgen.canon(next(ita), attrs))
                gotb.append(dsgen.canon(next(itb), attrs))
                for _ in range(2 * len(ref) + 1):
                    gota.append(dsgen.canon(next(ita), attrs))
                for e in itb:
                    gotb.append(dsgen.canon(e, attrs))
                    gota.append(dsgen.canon(next(ita), attrs))
                ita.close()
                expa = [ref[j % len(ref)] for j in range(len(gota))]
                return ("two_iterators", gota == expa and gotb == refb,
                        [[i for i, _ in gota][:10], [i for i, _ in gotb][:10]],
                        [[i for i, _ in expa][:10], [i for i, _ in refb][:10]])
            # abandon
            before = thread_count()
            it = iter(ds.as_numpy_iterator_rust(
                split=a, repeat=case["seed"] & 1 == 0, shuffle=0,
                file_parallelism=fp))
            got = ids(it, case["p"])
            it.close()
            del it
            after = thread_count()
            for _ in range(400):
                if after <= before:
                    break
                time.sleep(0.005)
                after = thread_count()
            exp = [ref[j % len(ref)] for j in range(len(got))]
            return ("abandon", got == exp and after <= before,
                    {"threads_before": before, "threads_after": after,
                     "taken": len(got)}, {"p": case["p"]})

        with env.fs.suspended():
            status, val = eread.forked(child, 60.0)
        key = {"engine": "e2e", "op": op}
        if status == "hang":
            out.update(ok=False, vclass="hang", key=key,
                       detail=f"{ctx}: no result within 60 s (observed by "
                       f"watchdog)")
        elif status != "ok":
            out.update(ok=False, vclass="rust_reader_failed", key=key,
                       detail=f"{ctx}: {status} {val}")
        elif not val[1]:
            out.update(ok=False, vclass="differs_from_python_reader"
                       if val[0] != "abandon" else "abandon_leaves_threads_or_wrong_prefix",
                       key=key, detail=f"{ctx}: got {val[2]} expected {val[3]}")
        h.update(repr((op, fp, status, val if status == "ok" else "")).encode())
        probes["e2e_" + op] += 1
        if any(a["dtype"].startswith(">") for a in attrs):
            probes["big_endian_declared"] += 1
        probes["compression_" + (st["compression"] or "none")] += 1
        if fp > n:
            probes["threads_above_shards"] += 1
        stats["e2e_runs"] += 1
    out.setdefault("key", {"engine": "e2e", "op": op})
    out.update({"digest": h.hexdigest(), "nontrivial": n >= 2,
                "stats": dict(stats), "probes": dict(probes),
                "sample": {"op": op, "structure": st, "shards": n,
                           "threads": fp}})
    return out


def run_case(case):
    if case["kind"].startswith("harness"):
        return run_harness(case)
    return run_e2e(case)


def shrink(case):
    if case["kind"] == "harness_one":
        for key in ("n", "T"):
            if case[key] > (1 if key == "T" else 0):
                c = dict(case)
                c[key] = case[key] - 1
                if c["drop"] > c["n"] + 1:
                    c["drop"] = c["n"] + 1
                yield c
        if case["policy"] != 2:
            c = dict(case)
            c["policy"] = 2
            yield c
    elif case["kind"] == "e2e":
        from simlib import esess
        yield from esess.shrink_history(case)


def reach(agg):
    need = []
    p = agg["probes"]
    for name in ("out_of_order_completion", "early_drop",
                 "threads_above_tasks", "threads_equal_tasks", "empty_input",
                 "e2e_sequence", "e2e_shuffled", "e2e_two_iters",
                 "e2e_abandon", "e2e_slow_consumer", "big_endian_declared",
                 "e2e_two_threads", "e2e_damaged", "e2e_drop_one",
                 "e2e_slow_shard", "compression_LZ4", "compression_GZIP",
                 "compression_ZLIB", "compression_none"):
        if not p.get(name):
            need.append(f"probe {name} never hit")
    return need
