"""C16 - recorded checksums are the standard digests of the exact file bytes."""
from __future__ import annotations

import collections
import hashlib
import os
import random
import shutil
from pathlib import Path

import xxhash

from simlib import bootstrap, dsgen, esess, fslayer, sched as S, simexec
from simlib.esess import Violation
from simlib.props import _sess_common as C

ID = "C16"
LEVEL = "exploration"
TECHNIQUE = ("deterministic simulation with fault injection at the I/O seam: "
             "the raw reader under hash_checksums returns seeded short counts "
             "(legal for read(2)); digests of files around every multiple of "
             "the 128 KiB buffer and digests recorded by seeded writing "
             "sessions are compared with hashlib/xxhash over independently "
             "read bytes")
RULE = ("two families. file: size in {0, 1, k*128KiB-1, k*128KiB, k*128KiB+1 "
        "(k=1..3), ~1 MiB, random}, content random / constant / periodic, "
        "algorithm tuple drawn with order and repetition from the 13 "
        "supported, short reads on or off. session: E-sess history written "
        "with short reads on; every checksum recorded in shards_list.json, "
        "returned for dataset_info.json and stored for each shard is compared "
        "(a third of the histories label shards with a 43k..131k character "
        "text of 1..4-byte characters, so that shard lists exceed one "
        "hashing block in bytes but not in characters). "
        "Oracle: == hashlib.new(a)/xxhash digest of the complete bytes, in the "
        "configured order, lowercase hex. Non-trivial = file larger than one "
        "buffer or a short read fired; distinct = digest of (sizes, algos, "
        "short-read pattern).")
ASSUMPTIONS = [
    "hashlib and the xxhash package are the reference for 'standard digest'",
    "narrow claim: chunking independence, algorithm identity and order",
]
REAL_STUB = {"real": ["sedpack.io.utils.hash_checksums, shard/list writers"],
             "simulated": ["raw file reader (seeded short reads)",
                           "uuid4/clock"]}
KIB128 = 128 * 1024


def reference(data: bytes, algos) -> tuple:
    out = []
    for a in algos:
        if a.startswith("xxh"):
            out.append({"xxh32": xxhash.xxh32, "xxh64": xxhash.xxh64,
                        "xxh128": xxhash.xxh128}[a](data).hexdigest())
        else:
            out.append(hashlib.new(a, data).hexdigest())
    return tuple(out)


def budget(tier):
    return C.budget(tier, 30.0, 300.0)


def gen_case(rng, tier, index):
    k = rng.choice([1, 2, 2, 3, 4, 13])
    algos = [rng.choice(dsgen.HASHES) for _ in range(k)] if k < 13 else \
        rng.sample(dsgen.HASHES, 13)
    if rng.random() < 0.6:
        m = rng.choice([1, 1, 2, 3])
        size = rng.choice([0, 1, 17, m * KIB128 - 1, m * KIB128,
                           m * KIB128 + 1, m * KIB128 + rng.randrange(2, 5000),
                           1024 * 1024 + 7, rng.randrange(0, 400000)])
        short = rng.random() < 0.7
        if rng.random() < 0.1:
            # files of several MiB: exact multiples of power-of-two block
            # sizes (1..8 MiB) and their neighbours
            size = (rng.choice([1, 2, 2, 3, 4]) * rng.choice([1, 2, 4, 4, 8])
                    * 1024 * 1024 + rng.choice([0, 0, 0, -1, 1, KIB128]))
            size = min(size, 16 * 1024 * 1024)
            short = False
        return {"kind": "file", "size": size, "algos": algos,
                "content": rng.choice(["random", "random", "zeros",
                                       "periodic"]),
                "short": short, "seed": rng.getrandbits(32)}
    hist = dsgen.gen_history(rng, n_sessions=rng.randrange(1, 3),
                             formats=("fb", "npz", "fb", "npz", "tfrec"),
                             hashes=algos, meta_modes=("none",),
                             max_writers=2)
    if rng.random() < 0.35:
        # metadata files around / above one hashing block, with multi-byte
        # characters (bytes != characters)
        spec = ["big", rng.choice([43690, 43691, 66000, 70000, 131072]),
                rng.choice([0xE9, 0x65E5, 0x41, 0x1F600])]
        for ses in hist["sessions"]:
            ws = ses.get("writes") or [w for x in ses.get("writers", [])
                                       for w in x]
            for w in ws[:1] + ws[-1:]:
                w["meta"] = list(spec)
        hist["big_meta"] = True
    case = C.base_case(rng, hist)
    case["kind"] = "session"
    case["short"] = rng.random() < 0.8
    return case


def run_file(case):
    sio = bootstrap.sedpack_io()
    import sedpack.io.utils as su
    scratch = fslayer.new_scratch("hash")
    r = random.Random(case["seed"])
    n = case["size"]
    if case["content"] == "random":
        data = r.randbytes(n)
    elif case["content"] == "zeros":
        data = bytes(n)
    else:
        unit = r.randbytes(r.choice([1, 3, 4096, KIB128]))
        data = (unit * (n // len(unit) + 1))[:n]
    path = os.path.join(scratch, "blob.bin")
    with open(path, "wb") as f:
        f.write(data)
    out = {"ok": True}
    fs = fslayer.FS(scratch, random.Random(case["seed"] ^ 7),
                    short_read=case["short"])
    try:
        with fs:
            got = su.hash_checksums(file_path=Path(path),
                                    hashes=tuple(case["algos"]))
        want = reference(data, case["algos"])
        if tuple(got) == want and n > 0:
            # the file changes in place to other content of the same size,
            # time stamps restored (bit rot / `cp -p`): hashed again in the
            # same process the digest must be the one of the new bytes
            st0 = os.stat(path)
            data = bytes(b ^ 0x5A for b in data[:64]) + data[64:]
            with fslayer.real_open(path, "r+b") as f:
                f.write(data)
            os.utime(path, ns=(st0.st_atime_ns, st0.st_mtime_ns))
            with fs:
                got = su.hash_checksums(file_path=Path(path),
                                        hashes=tuple(case["algos"]))
            want = reference(data, case["algos"])
        if tuple(got) != want:
            bad = [i for i, (g, w) in enumerate(zip(got, want)) if g != w]
            out.update(
                ok=False, vclass="digest_differs_from_standard",
                detail=f"size {n} content {case['content']} short_reads="
                f"{case['short']} algorithms {case['algos']}: positions {bad} "
                f"differ (got {[got[i][:12] for i in bad[:3]]} expected "
                f"{[want[i][:12] for i in bad[:3]]})",
                key={"engine": "file", "algo": case["algos"][bad[0]] if bad
                     else "len", "multi_chunk": n > KIB128})
    finally:
        shutil.rmtree(scratch, ignore_errors=True)
    out.update({
        "digest": hashlib.sha1(repr((n, case["algos"], case["content"],
                                     fs.faults)).encode()).hexdigest(),
        "nontrivial": n > KIB128 or bool(fs.faults.get("short_read")),
        "stats": {"files_hashed": 1, "bytes_hashed": n},
        "faults": dict(fs.faults),
        "probes": {"size_multiple_of_buffer": int(n > 0 and n % KIB128 == 0),
                   "larger_than_buffer": int(n > KIB128),
                   "size_multiple_of_4_MiB_at_least_8_MiB": int(
                       n >= 8 * 1024 * 1024 and n % (4 * 1024 * 1024) == 0),
                   "empty_file": int(n == 0),
                   "repeated_algorithm": int(len(set(case["algos"])) <
                                             len(case["algos"])),
                   "all_13_algorithms": int(len(set(case["algos"])) == 13)},
        "sample": {"size": n, "algorithms": case["algos"],
                   "short_reads_fired": fs.faults.get("short_read", 0)},
    })
    return out


def after_session(hr, k, stats, probes):
    root, st = hr.root, hr.st
    algos = st["hashes"]
    info, lists, shards = dsgen.walk_tree(root)

    def data_of(rel):
        with fslayer.real_open(os.path.join(root, rel), "rb") as f:
            return f.read()

    got_root = tuple(hr.ds.current_metadata_checksums())
    if got_root != reference(data_of("dataset_info.json"), algos):
        raise Violation("C16", "recorded_digest_differs_from_standard",
                        "current_metadata_checksums of dataset_info.json",
                        key={"what": "description"})
    for rel, meta in lists.items():
        rec = tuple(meta["recorded"]["shard_list_info_file"].get(
            "hash_checksums", ()))
        if rec != reference(data_of(rel), algos):
            raise Violation("C16", "recorded_digest_differs_from_standard",
                            f"shard list {rel}: recorded {rec[:2]}",
                            key={"what": "list"})
        stats["list_digests_checked"] += 1
    for sh in shards:
        rec = tuple(sh["hashes"])
        if rec != reference(data_of(sh["path"]), algos):
            raise Violation("C16", "recorded_digest_differs_from_standard",
                            f"shard {sh['path']}: recorded {rec[:2]}",
                            key={"what": "shard"})
        stats["shard_digests_checked"] += 1


def run_case(case):
    if case["kind"] == "file":
        return run_file(case)
    res = esess.run_history(case, [], after_session=after_session,
                            short_read=case["short"])
    res.setdefault("probes", {})["session_family"] = 1
    if case["hist"].get("big_meta"):
        res["probes"]["metadata_file_larger_than_a_block_non_ascii"] = 1
    return res


def shrink(case):
    if case["kind"] == "file":
        if len(case["algos"]) > 1:
            for i in range(len(case["algos"])):
                c = dict(case)
                c["algos"] = case["algos"][:i] + case["algos"][i + 1:]
                yield c
        if case["short"]:
            c = dict(case)
            c["short"] = False
            yield c
        return
    yield from esess.shrink_history(case)


def reach(agg):
    need = []
    p, f = agg["probes"], agg["faults"]
    for name in ("size_multiple_of_buffer", "larger_than_buffer",
                 "size_multiple_of_4_MiB_at_least_8_MiB", "empty_file",
                 "repeated_algorithm", "all_13_algorithms", "session_family",
                 "metadata_file_larger_than_a_block_non_ascii"):
        if not p.get(name):
            need.append(f"probe {name} never hit")
    if not f.get("short_read"):
        need.append("short reads never fired")
    if not agg["stats"].get("shard_digests_checked"):
        need.append("no recorded shard digest checked")
    return need
