"""C17 - paths taken from metadata cannot escape the dataset directory."""
from __future__ import annotations

import collections
import unicodedata
import hashlib
import json
import os
import random
import shutil
from pathlib import Path

from simlib import bootstrap, dsgen, eread, fslayer, sched as S
from simlib.props import c02

ID = "C17"
LEVEL = "exploration"
TECHNIQUE = ("deterministic simulation with fault injection: hostile stored "
             "metadata (path fields rewritten with spellings from a grammar, "
             "decoy files planted at the places they resolve to) and hostile "
             "writer sub-directory arguments; every open() / create / rename "
             "is observed at the instrumented file-system seam")
RULE = ("case = generated dataset + one path field rewritten (split list path "
        "in the description; relative_path_self, child list path or shard file "
        "path in a shard list at any depth) or a writer sub-directory "
        "argument, spelling from {relative, absolute, '.', '..', empty and "
        "repeated separators, depth 1..6, names that only look like the root}; "
        "then open / check / iterate through every interface (Rust and "
        "tf.data: the path list handed over is inspected) / continue writing. "
        "Oracle from the FS seam: no file outside the root is opened or "
        "created; a field resolving outside the root makes the operation that "
        "loads that document raise. Non-trivial = spelling resolves outside "
        "the root; distinct = (field, spelling class, operation).")
ASSUMPTIONS = [
    "symbolic links planted inside the dataset are out of scope (the "
    "quantifier is over path strings)",
    "no schedule dimension; the simulator contributes the monitored FS seam "
    "and the stored-byte fault model",
]
REAL_STUB = c02.REAL_STUB
FIELDS = ("split_list_path", "relative_path_self", "child_list_path",
          "shard_file_path", "writer_subdir")


def budget(tier):
    if tier == "quick":
        return {"wall_s": 30.0, "max_cases": 10**9, "case_timeout": 90.0}
    return {"wall_s": 300.0, "max_cases": 10**9, "case_timeout": 120.0}


def gen_spelling(rng, scratch_depth_hint=2):
    style = rng.choice(["dotdot", "dotdot", "dotdot_deep", "absolute",
                        "absolute", "inside_odd", "dotdot_then_in",
                        "sibling_prefix", "absolute_norm",
                        "absolute_double_slash", "absolute_sibling_prefix",
                        "backslash_dotdot", "backslash_absolute",
                        "unicode_lookalike"])
    comps = ["a", "b", "x y", "déjà", "train", "."]
    if style == "dotdot":
        parts = [".."] * rng.randrange(1, 4) + [rng.choice(["decoy", "outer"])]
    elif style == "dotdot_deep":
        parts = [rng.choice(comps) for _ in range(rng.randrange(1, 3))]
        parts += [".."] * (len(parts) + rng.randrange(1, 3)) + ["decoy", "d2"]
    elif style == "dotdot_then_in":
        # leaves the root and has many ordinary components afterwards
        parts = [".."] * rng.randrange(1, 3) + ["decoy"] + [
            rng.choice(["a", "b", "deep"]) for _ in range(rng.randrange(2, 5))]
    elif style == "inside_odd":
        parts = [rng.choice(comps), "", rng.choice(comps), ".", "q"]
    elif style == "sibling_prefix":
        parts = ["..", "root_evil", "x"]
    elif style == "backslash_dotdot":
        # a path as a Windows writer would spell it: harmless single POSIX
        # component unless somebody converts the separators
        parts = ["BSL", "..", "..", "decoy", rng.choice(["x", "deep"])]
    elif style == "unicode_lookalike":
        # U+2025 / U+FF0F look like ".." and "/" and become them under
        # compatibility normalisation: one harmless component as stored
        parts = ["UNI"] + [".."] * rng.randrange(1, 4) + [
            "decoy", rng.choice(["x", "deep"])]
    elif style == "backslash_absolute":
        parts = ["BSLABS", rng.choice(["decoy", "outer_abs"])]
    elif style == "absolute_sibling_prefix":
        # an absolute path into a sibling whose name extends the root's name
        parts = ["ABSROOT_evil", rng.choice(["x", "deep"])]
    else:
        parts = ["ABS"] + [rng.choice(["decoy", "outer_abs", "a"])
                           for _ in range(rng.randrange(1, 3))]
        if style == "absolute_norm":
            parts.insert(1, ".")
        if style == "absolute_double_slash":
            parts[0] = "ABS2"
    sep = rng.choice(["/", "/", "//"])
    return {"style": style, "parts": parts, "sep": sep}


def render(sp, scratch, base_dir):
    """The string stored in the field (ABS -> an absolute prefix inside the
    scratch area but outside the root)."""
    parts = list(sp["parts"])
    if parts and parts[0] == "BSL":
        return "\\".join(parts[1:])
    if parts and parts[0] == "UNI":
        return "\uff0f".join("\u2025" if p == ".." else p for p in parts[1:])
    if parts and parts[0] == "BSLABS":
        return "\\" + (os.path.join(scratch, "abs_area") + "/" + "/".join(
            parts[1:])).replace("/", "\\").lstrip("\\")
    if parts and parts[0] == "ABSROOT_evil":
        return base_dir + "_evil/" + sp["sep"].join(parts[1:])
    if parts and parts[0] in ("ABS", "ABS2"):
        lead = "/" if parts[0] == "ABS2" else ""  # exactly two slashes
        return lead + os.path.join(scratch, "abs_area") + "/" + sp[
            "sep"].join(parts[1:])
    return sp["sep"].join(parts)


def gen_case(rng, tier, index):
    hist = eread.read_hist(rng, formats=("fb", "fb", "npz", "npz", "tfrec"),
                           max_sessions=3, kinds=("root", "sub", "sub",
                                                  "multi"))
    return {"hist": hist, "field": rng.choice(FIELDS),
            "spelling": gen_spelling(rng), "pick": rng.getrandbits(16),
            # another dataset, located where the hostile path points, is
            # opened between opening this one and using it
            "open_other": rng.random() < 0.4,
            # the hostile shard file path sits in a shard record that names
            # several files, next to a harmless one
            "multi_file_infos": rng.choice([None, None, "first", "second",
                                            "third"]),
            "seed": rng.getrandbits(32), "sched_seed": rng.getrandbits(48),
            "iface": rng.choice(["sync", "conc", "async", "rust", "tfdata"
                                 if rng.random() < 0.3 else "sync"])}


SCRATCH_GUARD = [""]


def plant(path: str, src: str) -> None:
    # never touch anything outside the run's scratch area
    if not os.path.abspath(path).startswith(SCRATCH_GUARD[0] + os.sep):
        return
    os.makedirs(os.path.dirname(path), exist_ok=True)
    if os.path.isdir(path):
        return
    shutil.copyfile(src, path)


def run_case(case):
    hist = case["hist"]
    st = hist["structure"]
    field = case["field"]
    out = {"ok": True}
    probes = collections.Counter()
    stats = collections.Counter()
    bootstrap.sedpack_io()
    outside_reads: list = []
    outside_writes: list = []
    sample = {}
    with eread.ReadEnv(hist, case["seed"]) as env:
        root = os.path.realpath(env.root)
        scratch = env.scratch
        SCRATCH_GUARD[0] = os.path.realpath(scratch)
        splits = [s for s in hist["splits"] if env.model.ids(s)]
        if not splits:
            return {"ok": True, "digest": "empty", "nontrivial": False,
                    "probes": {"empty_dataset": 1}}
        split = splits[case["pick"] % len(splits)]

        def is_outside(full) -> bool:
            rp = os.path.realpath(full)
            return not (rp == root or rp.startswith(root + os.sep)) and \
                rp.startswith(os.path.realpath(scratch) + os.sep)

        # (only opens that would succeed count as reads)
        env.fs.read_hooks.append(
            lambda rel, full: outside_reads.append(full)
            if is_outside(full) and os.path.exists(full) else None)

        def make_walkable(stored_rel: str, base: str) -> None:
            """Create the ordinary directories a spelling walks through, so
            that the operating system resolves 'a/../../x' the way normpath
            does."""
            cur = base
            for part in stored_rel.replace("//", "/").split("/")[:-1]:
                if part in ("", "."):
                    continue
                cur = os.path.normpath(os.path.join(cur, part))
                if not cur.startswith(SCRATCH_GUARD[0] + os.sep):
                    return
                if part != "..":
                    try:
                        os.makedirs(cur, exist_ok=True)
                    except OSError:
                        return

        def eff(ev):
            _, _, kind, rel, _ = ev
            full = os.path.join(os.path.realpath(scratch), rel)
            if kind in ("open_w", "mkdir", "replace") and is_outside(full):
                outside_writes.append((kind, rel))

        env.fs.hooks.append(eff)
        with env.fs.suspended():
            info, lists, shards = dsgen.walk_tree(root)
            with open(os.path.join(root, "dataset_info.json"), "rb") as f:
                pristine_info = f.read()
            my_lists = sorted(r for r, m in lists.items()
                              if m["split"] == split)
            my_shards = [s for s in shards if s["split"] == split]
            a_list = os.path.join(root, my_lists[0])
            a_shard = os.path.join(root, my_shards[0]["path"])
            sp = case["spelling"]
            text = render(sp, scratch, root)
            resolved_outside = False
            target_doc = None
            if field == "split_list_path":
                stored = text + "/shards_list.json"
                resolved = os.path.normpath(os.path.join(root, stored))
                resolved_outside = is_outside(resolved) or not resolved.startswith(root)
                if resolved_outside:
                    plant(resolved, a_list)
                    make_walkable(stored, root)
                if "\\" in stored:
                    plant(os.path.normpath(os.path.join(
                        root, stored.replace("\\", "/"))), a_list)
                if "\u2025" in stored:
                    plant(os.path.normpath(os.path.join(
                        root, unicodedata.normalize("NFKC", stored))), a_list)
                info["splits"][split]["shard_list_info_file"][
                    "file_path"] = stored
                with open(os.path.join(root, "dataset_info.json"), "w",
                          encoding="utf-8") as f:
                    json.dump(info, f)
                target_doc = "dataset_info.json"
            elif field in ("relative_path_self", "child_list_path",
                           "shard_file_path"):
                cands = [r for r in my_lists if (
                    field != "child_list_path" or
                    lists[r]["doc"].get("children_shard_lists")) and (
                    field != "shard_file_path" or
                    lists[r]["doc"].get("shard_files"))]
                if not cands:
                    return {"ok": True, "digest": "nofield",
                            "nontrivial": False,
                            "probes": {"field_not_present": 1}}
                rel = cands[case["pick"] % len(cands)]
                doc = lists[rel]["doc"]
                base = os.path.dirname(rel)
                if field == "shard_file_path":
                    stored = text + "/evil" + eread.esess_ext(st["fmt"])
                    rec = doc["shard_files"][case["pick"] %
                                             len(doc["shard_files"])]
                    mfi = case.get("multi_file_infos")
                    if mfi:
                        import copy as _copy
                        benign = rec["file_infos"][0]
                        hostile = _copy.deepcopy(benign)
                        hostile["file_path"] = stored
                        rec["file_infos"] = {
                            "first": [hostile, benign],
                            "second": [benign, hostile],
                            "third": [benign, _copy.deepcopy(benign),
                                      hostile]}[mfi]
                        probes["hostile_path_among_several_file_infos"] += 1
                    else:
                        rec["file_infos"][0]["file_path"] = stored
                    src = a_shard
                else:
                    stored = text + "/shards_list.json"
                    if field == "relative_path_self":
                        doc["relative_path_self"] = stored
                    else:
                        ch = doc["children_shard_lists"]
                        ch[case["pick"] % len(ch)]["shard_list_info_file"][
                            "file_path"] = stored
                    src = a_list
                resolved = os.path.normpath(os.path.join(root, stored))
                resolved_outside = not (resolved == root or
                                        resolved.startswith(root + os.sep))
                if resolved_outside and field != "relative_path_self":
                    plant(resolved, src)
                    make_walkable(stored, root)
                if "\\" in stored and field != "relative_path_self":
                    plant(os.path.normpath(os.path.join(
                        root, stored.replace("\\", "/"))), src)
                if "\u2025" in stored and field != "relative_path_self":
                    plant(os.path.normpath(os.path.join(
                        root, unicodedata.normalize("NFKC", stored))), src)
                with open(os.path.join(root, rel), "w", encoding="utf-8") as f:
                    json.dump(doc, f)
                target_doc = rel
            else:
                stored = text
                resolved = os.path.normpath(os.path.join(root, split, stored))
                resolved_outside = not resolved.startswith(root + os.sep)
        probes["field_" + field] += 1
        probes["style_" + sp["style"]] += 1
        if resolved_outside:
            probes["resolves_outside_root"] += 1
        sample = {"field": field, "stored": stored,
                  "resolves_outside_root": resolved_outside}
        raised = {}

        def attempt(name, fn):
            try:
                fn()
                raised[name] = None
            except (S.SimDeadlock, S.SimStepLimit):
                raise
            except Exception as e:  # pylint: disable=broad-except
                raised[name] = type(e).__name__
            stats["operations"] += 1

        if field == "writer_subdir":
            from sedpack.io.dataset_filler import DatasetFiller
            ds = env.open()

            def write():
                with DatasetFiller(ds, relative_path_from_split=Path(
                        stored)) as filler:
                    for i in range(2):
                        filler.write_example(
                            values=dsgen.values_for(st["attrs"], 900000 + i,
                                                    st["fmt"]), split=split)

            attempt("write", write)
        else:
            holder = {}
            attempt("open", lambda: holder.setdefault("ds", env.open()))
            ds = holder.get("ds")
            if case.get("open_other") and resolved_outside and \
                    os.path.exists(resolved):
                # a legitimate second dataset whose directory contains the
                # file the hostile path names (its own reads are not ours)
                with env.fs.suspended():
                    other_root = os.path.dirname(resolved)
                    if case["pick"] & 1 and os.path.dirname(
                            other_root).startswith(SCRATCH_GUARD[0] + os.sep):
                        other_root = os.path.dirname(other_root)
                    if other_root.startswith(SCRATCH_GUARD[0] + os.sep) and \
                            not root.startswith(other_root + os.sep) and \
                            other_root != root:
                        try:
                            with open(os.path.join(other_root,
                                                   "dataset_info.json"),
                                      "wb") as f:
                                f.write(pristine_info)
                            holder["other"] = env.hr.sio.Dataset(other_root)
                            probes["other_dataset_opened_in_between"] += 1
                        except Exception:  # pylint: disable=broad-except
                            probes["other_dataset_failed_to_open"] += 1
            if ds is not None:
                attempt("check", lambda: ds.check(show_progressbar=False))
                iface = case["iface"] if eread.supports(case["iface"],
                                                        st) else "sync"
                if iface in ("rust", "tfdata"):
                    def paths():
                        for p in ds.shard_paths_dataset(split=split):
                            if is_outside(p) or not os.path.realpath(
                                    p).startswith(root + os.sep):
                                outside_reads.append("handed to %s: %s" %
                                                     (iface, p))
                    attempt("paths_for_" + iface, paths)
                else:
                    def it():
                        rr = eread.run_reader(
                            env, ds, iface, split,
                            {"repeat": False, "shuffle": 0, "fp": 2},
                            seed=case["sched_seed"])
                        if rr.exc is not None:
                            raise rr.exc
                        if rr.deadlock:
                            raise RuntimeError(rr.deadlock)
                    attempt("iterate_" + iface, it)
                if field == "relative_path_self":
                    from sedpack.io.dataset_filler import DatasetFiller
                    rel_dir = os.path.relpath(os.path.dirname(target_doc),
                                              split)

                    def cont():
                        with DatasetFiller(ds, relative_path_from_split=Path(
                                rel_dir)) as filler:
                            filler.write_example(
                                values=dsgen.values_for(st["attrs"], 900100,
                                                        st["fmt"]),
                                split=split)
                    attempt("continue_writing", cont)
        key = {"engine": "E-read", "field": field,
               "absolute": sp["parts"][0].startswith("ABS")}
        if outside_reads:
            out.update(ok=False, vclass="read_outside_root", key=key,
                       detail=f"field {field} = {stored!r}: opened "
                       f"{outside_reads[:2]} (operations: {raised})")
        elif outside_writes:
            out.update(ok=False, vclass="created_outside_root", key=key,
                       detail=f"field {field} = {stored!r}: "
                       f"{outside_writes[:3]} (operations: {raised})")
        elif resolved_outside and field != "writer_subdir":
            loaders = {"split_list_path": ["open"],
                       "child_list_path": ["check"],
                       "shard_file_path": ["check"],
                       "relative_path_self": ["check"]}[field]
            not_raised = [n for n in loaders if n in raised and
                          raised[n] is None]
            if not_raised:
                out.update(
                    ok=False, vclass="outside_path_not_rejected", key=key,
                    detail=f"field {field} = {stored!r} resolves outside the "
                    f"root but {not_raised} did not raise ({raised})")
        sample["operations"] = raised
    out.setdefault("key", {"engine": "E-read"})
    out.update({
        "digest": hashlib.sha1(repr((field, case["spelling"],
                                     sorted(sample.get("operations",
                                                       {}).items()))).encode()
                               ).hexdigest(),
        "nontrivial": bool(sample.get("resolves_outside_root")),
        "stats": dict(stats), "probes": dict(probes),
        "faults": {"hostile_path_field": 1}, "sample": sample})
    return out


def shrink(case):
    sp = case["spelling"]
    if len(sp["parts"]) > 2:
        for i in range(1, len(sp["parts"])):
            c = dict(case)
            c["spelling"] = dict(sp, parts=sp["parts"][:i] + sp["parts"][i + 1:])
            yield c
    from simlib import esess
    yield from esess.shrink_history(case)


def reach(agg):
    need = []
    if not agg["probes"].get("hostile_path_among_several_file_infos"):
        need.append("probe hostile_path_among_several_file_infos never hit")
    p = agg["probes"]
    for f in FIELDS:
        if not p.get("field_" + f):
            need.append(f"field {f} never attacked")
    for name in ("style_dotdot", "style_absolute", "style_dotdot_then_in",
                 "resolves_outside_root"):
        if not p.get(name):
            need.append(f"probe {name} never hit")
    return need
