"""C18 - write-time validation is all-or-nothing and never poisons a shard."""
from __future__ import annotations

import collections

from simlib import dsgen, esess
from simlib.esess import Violation
from simlib.props import _sess_common as C

ID = "C18"
LEVEL = "exploration"
TECHNIQUE = ("deterministic simulation harness (E-sess) with error-path "
             "operations: seeded sessions whose write sequences contain "
             "deliberately invalid writes (the injected fault) at seeded "
             "positions; the caller catches the error and carries on; the "
             "reference model follows accepted and rejected writes")
RULE = ("case = history of 1..3 sessions over a structure whose attributes "
        "include declarations the format supports and ones it does not (fb: "
        "bytes/str; tfrec: float64, int16, uint16/32/64; variable-size "
        "bytes/str), with bad writes "
        "{wrong shape, wrong rank, same size other rank, unsafe dtype, foreign "
        "dtype, wrong container, missing attribute, surplus attribute} on the "
        "first / middle / last attribute at seeded positions (first of a "
        "shard, middle, last). Oracle: a rejected write leaves no trace "
        "(all other examples read back byte-exact, counts exclude it, C04 "
        "exactness holds, every recorded shard label is the metadata of an "
        "accepted write stored in that shard); an accepted write - good or odd - never makes the "
        "session fail later, nor the dataset unopenable, check() fail or "
        "iteration raise. Non-trivial = at least one bad write or unsupported "
        "declaration; distinct = event digest.")
ASSUMPTIONS = C.ASSUMPTIONS + [
    "value equality of an *accepted* odd example is not asserted (that would "
    "be C01)", "no schedule dimension of its own"]
REAL_STUB = C.REAL_STUB
EXTRA = {
    "fb": [("bytes", ()), ("str", ())],
    "npz": [("bytes", ()), ("str", ())],
    # (the TFRecord writer refuses int16 .. uint64 for every write while its
    # reader has entries for some of them: declarations on the edge)
    "tfrec": [("float64", (2,)), ("bytes", ()), ("str", ()), ("int8", (2,)),
              ("int16", (2,)), ("uint16", ()), ("uint32", (1,)),
              ("uint64", ())],
}


def budget(tier):
    return C.budget(tier, 35.0, 400.0)


def gen_case(rng, tier, index):
    hist = dsgen.gen_history(
        rng, n_sessions=rng.randrange(1, 4),
        formats=("fb", "fb", "npz", "npz", "tfrec"),
        kinds=("root", "root", "sub"),
        meta_modes=("none", "none", "some", "runs"), max_payload=2,
        bad_rate=rng.choice([0.15, 0.3, 0.3]))
    st = hist["structure"]
    # sometimes add a declaration the format only half supports
    if rng.random() < 0.45:
        dt, sh = rng.choice(EXTRA[st["fmt"]])
        st["attrs"].insert(rng.randrange(0, len(st["attrs"]) + 1),
                           {"name": "v0", "dtype": dt, "shape": list(sh)})
    # one kind of invalid write against one attribute per case, so that a
    # violation is attributable (known-finding keys stay specific)
    kind = rng.choice(dsgen.BAD_KINDS)
    target = rng.randrange(0, 8)
    odd = [i for i, a in enumerate(st["attrs"]) if a["name"] == "v0"]
    if odd and rng.random() < 0.5:
        target = odd[0]  # aim at the variable-size / half-supported attribute
    for ses in hist["sessions"]:
        for w in ses.get("writes", []):
            if w.get("bad"):
                w["bad"] = kind
                w["bad_attr"] = target
    case = C.base_case(rng, hist)
    case["bad_kind"] = kind
    case["bad_attr"] = target
    return case


def dtype_class(dt: str) -> str:
    if dt in ("bytes", "str", "float16"):
        return dt
    if dt.startswith("float"):
        return "float"
    return "int"


def bad_signature(hist, w):
    attrs = hist["structure"]["attrs"]
    a = attrs[w.get("bad_attr", 0) % len(attrs)]
    return f"{w['bad']}@{a['dtype']}"


def run_case(case):
    hist = case["hist"]
    st = hist["structure"]
    decls = sorted({a["dtype"] for a in st["attrs"]
                    if a["dtype"] in ("bytes", "str", "float64", "int16",
                                      "uint16", "uint32", "uint64")})
    state = {"accepted_bad": []}
    target = st["attrs"][case.get("bad_attr", 0) % len(st["attrs"])]
    nbad_total = sum(1 for s in hist["sessions"] for w in s.get("writes", [])
                     if w.get("bad"))
    kind = case.get("bad_kind")
    group = {"shape": "shape", "rank": "shape", "rank_same_size": "shape",
             "missing": "names", "extra": "names"}.get(kind, "type")
    base_key = {"fmt": st["fmt"], "decl": ",".join(decls),
                "bad_kind": kind if nbad_total else "none",
                "bad_group": group if nbad_total else "none",
                "target": ("varsize" if target["dtype"] in ("bytes", "str")
                           else "fixed") if nbad_total else "none",
                "bad": (f"{kind}@{dtype_class(target['dtype'])}")
                if nbad_total else "none"}

    def after(hr, k, stats, probes):
        ses = hist["sessions"][k]
        if hr.rejected_good and not decls:
            # every declaration is supported, so a *valid* write must not fail
            ident, exc = hr.rejected_good[0]
            raise Violation(
                "C18", "valid_write_fails_after_a_rejected_one",
                f"{st['fmt']}: the valid write of example {ident} raised "
                f"{exc} (earlier rejected writes: {len(hr.rejected)}, kind "
                f"{case.get('bad_kind')})", key=dict(base_key))
        for w in ses.get("writes", []):
            if w.get("bad"):
                probes["bad_" + w["bad"]] += 1
        accepted = set(hr.accepted_bad)
        for w in ses.get("writes", []):
            if w.get("bad") and w["id"] in accepted:
                sig = bad_signature(hist, w)
                if sig not in state["accepted_bad"]:
                    state["accepted_bad"].append(sig)
                probes["bad_write_accepted"] += 1
        key = dict(base_key)
        try:
            esess.oracle_c04(hr, stats)
        except Violation as v:
            v.prop = "C18"
            v.vclass = "counts_wrong_after_bad_write__" + v.vclass
            v.key = key
            raise
        except Exception as e:  # pylint: disable=broad-except
            raise Violation(
                "C18", "accepted_write_makes_shard_undecodable",
                f"{st['fmt']} declarations {[(a['dtype'], a['shape']) for a in st['attrs']]}"
                f" accepted bad writes {state['accepted_bad']}: "
                f"{type(e).__name__}: {str(e)[:160]}", key=key) from e
        # a rejected write leaves no trace in the shard labels either: every
        # recorded label is the metadata of an accepted write of an example
        # stored in that shard, and accepted examples lie under their label
        n_rej = sum(len(v) for v in hr.model.rejected.values())
        # (ids of accepted odd writes may not decode, so with such writes in
        # the history a label cannot be attributed; those cases are skipped)
        attributable = n_rej > 0 and not accepted
        by_id = {r.id: r for recs in hr.model.committed.values()
                 for r in recs}
        for sh in (esess.shards_with_ids(hr) if attributable else ()):
            metas = [by_id[i].meta for i in sh["ids"]
                     if i in by_id and by_id[i].meta]
            if sh["meta"] and sh["meta"] not in metas:
                raise Violation(
                    "C18", "rejected_write_left_its_metadata_on_a_shard",
                    f"{st['fmt']}: shard {sh['path']} is labelled "
                    f"{sh['meta']}, the accepted writes stored in it carried "
                    f"{metas[:3]} (rejected writes: {n_rej}, kind "
                    f"{kind})", key=key)
            stats["shard_labels_checked"] += 1
            for i in sh["ids"]:
                r = by_id.get(i)
                if r is None or not r.meta:
                    continue
                if r.meta != sh["meta"]:
                    raise Violation(
                        "C18", "label_wrong_after_bad_write",
                        f"{st['fmt']}: example {i} written with {r.meta} "
                        f"lies in shard {sh['path']} labelled {sh['meta']} "
                        f"(rejected writes: {n_rej}, kind {kind})",
                        key=key)
        try:
            fresh = hr.sio.Dataset(hr.root)
            fresh.check(show_progressbar=False)
            got = esess.read_all(hr, fresh)
        except Exception as e:  # pylint: disable=broad-except
            raise Violation(
                "C18", "accepted_write_makes_dataset_unreadable",
                f"{st['fmt']} {[(a['dtype'], a['shape']) for a in st['attrs']]} "
                f"accepted bad {state['accepted_bad']}: {type(e).__name__}: "
                f"{str(e)[:160]}", key=key) from e
        for split in set(got) | set(hr.model.committed):
            have = got.get(split, [])
            recs = hr.model.committed.get(split, [])
            good_ids = [r.id for r in recs if r.id not in accepted]
            n_expected = len(recs)
            if len(have) != n_expected:
                raise Violation(
                    "C18", "count_includes_rejected_or_loses_accepted",
                    f"{split}: {len(have)} examples read, {n_expected} "
                    f"accepted writes (rejected: {len(hr.rejected)})",
                    key=key)
            exp = {i: dsgen.expected_canon(st["attrs"], i, st["fmt"])
                   for i in good_ids}
            seen = collections.Counter()
            for ident, payload in have:
                if ident in exp:
                    seen[ident] += 1
                    if (ident, payload) != exp[ident]:
                        raise Violation(
                            "C18", "neighbour_example_changed",
                            f"{split}: example {ident} differs after a "
                            f"rejected/odd write in the same session",
                            key=key)
            if seen != collections.Counter(good_ids):
                raise Violation(
                    "C18", "neighbour_example_lost",
                    f"{split}: missing "
                    f"{sorted((collections.Counter(good_ids) - seen).elements())[:6]}",
                    key=key)
        stats["sessions_validated"] += 1

    res = esess.run_history(case, [], after_session=after,
                            tolerate_rejected_good=True)
    nbad = sum(1 for s in hist["sessions"] for w in s.get("writes", [])
               if w.get("bad"))
    res.setdefault("faults", {})["invalid_writes_injected"] = nbad
    if decls:
        res.setdefault("probes", {})["unsupported_declaration"] = 1
    # a session that fails because of an earlier *accepted* write is ours
    if res.get("probes", {}).get("session_raised") and res["ok"]:
        res.update(
            ok=False, vclass="accepted_write_breaks_the_session",
            detail=f"{st['fmt']} declarations "
            f"{[(a['dtype'], a['shape']) for a in st['attrs']]}: a session "
            f"whose invalid writes were all caught by the caller failed on "
            f"close (accepted bad writes: {state['accepted_bad']})",
            key=dict(base_key))
    res["nontrivial"] = res.get("nontrivial", False) and (nbad > 0 or
                                                         bool(decls))
    return res


shrink = esess.shrink_history


def reach(agg):
    need = []
    p = agg["probes"]
    for name in ("bad_shape", "bad_rank", "bad_unsafe_dtype",
                 "bad_foreign_dtype", "bad_container", "bad_missing",
                 "bad_extra", "bad_rank_same_size", "rejected_write_caught",
                 "unsupported_declaration"):
        if not p.get(name):
            need.append(f"probe {name} never hit")
    return need
