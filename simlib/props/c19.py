"""C19 - repeating iteration cycles through the whole split forever."""
from __future__ import annotations

import collections
import hashlib
import random

from simlib import bootstrap, dsgen, eread, sched as S
from simlib.props import c02

ID = "C19"
LEVEL = "exploration"
# a worker that hangs or blows up in native code while running a case of this
# property is re-run in a sandboxed interpreter; a second hang is the verdict
HANG_IS_VIOLATION = True
TECHNIQUE = ("deterministic simulation: prefixes of several epochs of the "
             "repeat=True stream of every interface, LazyPool/executor paths "
             "under the seeded scheduler, async on the virtual-time loop; "
             "abandonment must leave no simulated thread behind")
RULE = ("case = generated dataset x interface in {sync, conc, async, rust, "
        "tfdata} x shuffle in {0,1,3,>N} x file_parallelism in 1..shards+5 "
        "(incl. values above and not a multiple of the shard count) x prefix "
        "of m*N+r elements, m in 2..4 (8% of the cases: 1300 epochs of a "
        "1..3 example split; tf.data: the same dataset object iterated "
        "partly, dropped and iterated again). Oracle: every element belongs to the "
        "split and is byte-exact; shuffle=0 => prefix of the one-pass sequence "
        "repeated; rust => every consecutive block of N is a permutation of "
        "the split; every next() completes within the step budget; after "
        "close() no simulated thread is runnable or blocked. Non-trivial = "
        ">= 2 shards and >= 2 epochs; distinct = distinct SHA-1 of trace + "
        "stream.")
ASSUMPTIONS = c02.ASSUMPTIONS
REAL_STUB = c02.REAL_STUB


def budget(tier):
    if tier == "quick":
        return {"wall_s": 35.0, "max_cases": 10**9, "case_timeout": 120.0}
    return {"wall_s": 420.0, "max_cases": 10**9, "case_timeout": 180.0}


def setup(tier, build=True):
    if build:
        bootstrap.build_rust()


def gen_case(rng, tier, index):
    iface = rng.choice(["sync", "conc", "conc", "conc", "async", "rust",
                        "rust", "tfdata" if rng.random() < 0.5 else "conc"])
    fmts = {"async": ("fb", "npz"), "rust": ("fb",)}.get(
        iface, ("fb", "fb", "npz", "npz", "tfrec"))
    comp = rng.choice(dsgen.RUST_COMPRESSIONS) if iface == "rust" else None
    hist = eread.read_hist(rng, formats=fmts, compression=comp,
                           max_sessions=2)
    # "forever": well over a thousand epochs of a tiny split
    long_run = rng.random() < 0.08
    if long_run:
        # (reading a TFRecord shard outside tf.data costs ~25 ms: 4000 shard
        # reads would take minutes)
        hist = eread.read_hist(rng, formats=fmts if iface in (
            "tfdata", "rust", "async") else ("fb", "npz"), compression=comp,
                               n_examples=rng.choice([1, 2, 3]),
                               eps=rng.choice([1, 2]))
    return {"hist": hist, "iface": iface, "long_run": long_run,
            # tf.data: the same dataset object was iterated (partly) before
            "tf_reiterate": [rng.randrange(1, 7)
                             for _ in range(rng.choice([0, 1, 1, 2]))],
            "shuffle_sel": rng.choice([0, 0, 0, 1, 3, "n+7"]),
            "fp_sel": rng.choice([1, 2, 3, "s", "s+1", "s+2", "s+5", "2s+1",
                                  "s-1"]),
            "m": rng.choice([2, 2, 3, 4]), "r": rng.randrange(0, 5),
            "batch": rng.choice([0, 2, 3, 4, 32]),
            # two repeating streams of one dataset alive at once, advanced
            # alternately (train / validation of one training loop)
            "two_streams": rng.random() < 0.35,
            # history on the handle: a shuffled finite pass (or a few
            # elements of a shuffled Rust stream) before the measured stream
            "shuffled_first": rng.random() < 0.35,
            "pattern": rng.getrandbits(30),
            "seed": rng.getrandbits(32), "sched_seed": rng.getrandbits(48),
            "policy": rng.choice(S.POLICIES),
            "policy_param": rng.randrange(0, 4),
            # the repeating stream of a selected part of the split (first k
            # shards / at most k shards per metadata value) cycles through
            # that part, in every epoch
            "select": rng.choice([None, None, None, ["limit", 1],
                                  ["limit", 2], ["shards", 1], ["shards", 2],
                                  ["shards", 3]])}


def run_case(case):
    hist = case["hist"]
    st = hist["structure"]
    iface = case["iface"]
    out = {"ok": True}
    h = hashlib.sha1()
    stats = collections.Counter()
    probes = collections.Counter()
    bootstrap.sedpack_io()
    if not eread.supports(iface, st):
        iface = "sync"
    sample = {}
    nshards = 0
    with eread.ReadEnv(hist, case["seed"]) as env:
        splits = [s for s in hist["splits"] if env.model.ids(s)]
        if not splits:
            return {"ok": True, "digest": "empty", "nontrivial": False,
                    "probes": {"empty_dataset": 1}}
        split = splits[0]
        table = env.shard_table(split)
        nshards = len(table)
        ids = env.model.ids(split)
        N = len(ids)
        sh = {"n+7": N + 7}.get(case["shuffle_sel"], case["shuffle_sel"])
        fp = {"s": nshards, "s+1": nshards + 1, "s+2": nshards + 2,
              "s+5": nshards + 5, "2s+1": 2 * nshards + 1,
              "s-1": max(1, nshards - 1)}.get(case["fp_sel"], case["fp_sel"])
        fp = max(1, fp)
        opts = {"repeat": True, "shuffle": sh, "fp": fp,
                "batch": case.get("batch", 0)}
        sel = case.get("select")
        if sel and not (case.get("two_streams") and iface in ("rust", "sync")):
            sopt = ({"limit": sel[1]} if sel[0] == "limit" and iface in (
                "sync", "conc", "tfdata") else
                    {"shards": max(1, min(nshards, sel[1]))})
            with env.fs.suspended():
                part = [dsgen.canon(x, st["attrs"])[0] for x in
                        eread.make_iter(env.open(), "sync", split, dict(
                            sopt, repeat=False, shuffle=0, fp=1))]
            if part:
                opts.update(sopt)
                ids = list(part)
                N = len(ids)
                probes["repeating_stream_of_a_selection"] += 1
                if N < len(env.model.ids(split)):
                    probes["selection_smaller_than_the_split"] += 1
            else:
                sel = None
        else:
            sel = None
        if iface == "tfdata" and case.get("tf_reiterate"):
            opts["tf_reiterate"] = list(case["tf_reiterate"])
            probes["tfdata_object_iterated_again"] += 1
        if case.get("long_run") and N <= 3:
            case = dict(case, m=1300)
            probes["more_than_a_thousand_epochs"] += 1
        if iface == "tfdata" and opts["batch"] and N % opts["batch"]:
            probes["tfdata_batch_not_dividing_split"] += 1
        want = case["m"] * N + case["r"]
        random.seed(case["seed"])
        ds = env.open()
        one_pass = [i for i, _ in dsgen.read_sync(env.open(), split,
                                                  st["attrs"])]
        if sel:
            one_pass = list(ids)
        if case.get("shuffled_first"):
            pre = "rust" if (case["seed"] & 8 and eread.supports(
                "rust", st)) else "sync"
            with env.fs.suspended():
                it0 = iter(eread.make_iter(
                    ds, pre, split, {"repeat": pre == "rust",
                                     "shuffle": N + 7, "fp": 2}))
                for _ in range(N + 2 if pre == "rust" else N):
                    next(it0, None)
                close0 = getattr(it0, "close", None)
                if close0 is not None:
                    close0()
                del it0
            probes["shuffled_pass_before_the_stream"] += 1
        if case.get("two_streams") and iface in ("rust", "sync") and \
                len(splits) >= 1:
            other = splits[1] if len(splits) > 1 else split
            oids = env.model.ids(other)
            oone = [i for i, _ in dsgen.read_sync(ds, other, st["attrs"])]
            want_o = case["m"] * len(oids) + 1

            def child():
                a = iter(eread.make_iter(ds, iface, split, opts))
                b = iter(eread.make_iter(ds, iface, other, dict(
                    opts, fp=max(1, fp - 1))))
                ga, gb = [], []
                step = 0
                while len(ga) < want or len(gb) < want_o:
                    pick_a = ((case["pattern"] >> (step % 30)) & 1) == 0
                    step += 1
                    if len(ga) >= want:
                        pick_a = False
                    elif len(gb) >= want_o:
                        pick_a = True
                    if pick_a:
                        ga.append(dsgen.canon(next(a), st["attrs"])[0])
                    else:
                        gb.append(dsgen.canon(next(b), st["attrs"])[0])
                a.close()
                b.close()
                return ga, gb

            with env.fs.suspended():
                status, val = (eread.forked(child, 60.0) if iface == "rust"
                               else ("ok", child()))
            probes["two_repeating_streams_interleaved"] += 1
            probes["iface_" + iface] += 1
            bad = None
            if status == "hang":
                bad = ("stream_stalls", "no result within 60 s (observed by "
                       "watchdog)")
            elif status != "ok":
                bad = ("two_streams_fail", str(val)[:300])
            else:
                for name, got_s, ids_s, one_s in (
                        (split, val[0], ids, one_pass),
                        (other, val[1], oids, oone)):
                    n_s = len(ids_s)
                    if [i for i in got_s if i not in set(ids_s)]:
                        bad = ("foreign_or_corrupted_example",
                               f"stream of {name} yields examples of another "
                               f"split: {got_s[:12]}")
                    elif sh == 0 and got_s != [one_s[j % n_s]
                                               for j in range(len(got_s))]:
                        bad = ("not_periodic", f"stream of {name}: "
                               f"{got_s[:12]}")
                    elif iface == "rust" and any(
                            sorted(got_s[e * n_s:(e + 1) * n_s]) != sorted(
                                ids_s)
                            for e in range(len(got_s) // n_s)):
                        bad = ("epoch_not_a_permutation",
                               f"stream of {name}: {got_s[:12]}")
                    if bad:
                        break
            if bad:
                out.update(ok=False, vclass=bad[0],
                           detail=f"two interleaved repeating {iface} "
                           f"streams ({split}, {other}) N={N} shuffle={sh} "
                           f"fp={fp}: {bad[1]}",
                           key={"engine": "E-read", "iface": iface})
            out.update({"digest": hashlib.sha1(repr(val).encode()
                                               ).hexdigest(),
                        "nontrivial": nshards >= 2, "stats": dict(stats),
                        "probes": dict(probes),
                        "sample": {"iface": iface, "two_streams": True,
                                   "opts": opts}})
            out.setdefault("key", {"engine": "E-read", "iface": iface})
            return out
        rr = eread.run_reader(env, ds, iface, split, opts, k=want,
                              seed=case["sched_seed"], policy=case["policy"],
                              policy_param=case["policy_param"],
                              choices=case.get("choices"), max_steps=400000)
        ctx = (f"{iface} {st['fmt']}/{st['compression']} N={N} "
               f"shards={nshards} shuffle={sh} fp={fp} take={want}")
        got = [i for i, _ in rr.items]
        if rr.deadlock:
            vclass = ("threads_left_after_abandon" if rr.leftover_tasks else
                      "stream_stalls")
            out.update(ok=False, vclass=vclass, detail=f"{ctx}: {rr.deadlock}")
        elif rr.exc is not None:
            out.update(ok=False, vclass="unexpected_exception",
                       detail=f"{ctx}: {type(rr.exc).__name__}: {rr.exc}")
        elif len(got) < want:
            out.update(ok=False, vclass="stream_ends",
                       detail=f"{ctx}: stream ended after {len(got)}")
        else:
            err = dsgen.check_examples(rr.items, st["attrs"], st["fmt"])
            foreign = [i for i in got if i not in set(ids)]
            if err or foreign:
                out.update(ok=False, vclass="foreign_or_corrupted_example",
                           detail=f"{ctx}: {err or foreign[:6]}")
            elif sh == 0:
                exp = [one_pass[j % N] for j in range(want)]
                if got != exp:
                    pos = next(j for j in range(want) if got[j] != exp[j])
                    out.update(
                        ok=False, vclass="not_periodic",
                        detail=f"{ctx}: position {pos} (epoch {pos // N}): "
                        f"expected {exp[pos:pos + 6]} got {got[pos:pos + 6]}")
            elif iface == "rust":
                for e in range(case["m"]):
                    block = sorted(got[e * N:(e + 1) * N])
                    if block != sorted(ids):
                        out.update(
                            ok=False, vclass="epoch_not_a_permutation",
                            detail=f"{ctx}: epoch {e} is not a permutation of "
                            f"the split")
                        break
        if rr.sched is not None:
            h.update(rr.sched.digest().encode())
            stats["scheduler_decisions"] += rr.sched.steps
        if rr.loop is not None:
            stats["async_offloads"] += rr.loop.offloads
        h.update(repr(sorted(got) if iface == "tfdata" and sh else
                      got).encode())
        stats["elements_streamed"] += len(got)
        probes["iface_" + iface] += 1
        if fp > nshards:
            probes["parallelism_above_shard_count"] += 1
            if nshards and fp % nshards:
                probes["parallelism_not_multiple_of_shards"] += 1
        if sh == 0:
            probes["unshuffled"] += 1
        sample = {"iface": iface, "opts": opts, "N": N, "shards": nshards,
                  "take": want, "stream": got[:2 * N + 2]}
    out.update({"digest": h.hexdigest(),
                "nontrivial": nshards >= 2,
                "stats": dict(stats), "probes": dict(probes),
                "key": {"engine": "E-read", "iface": iface},
                "sample": sample})
    if not out["ok"] and rr.sched is not None and "choices" not in case:
        case["choices"] = list(rr.sched.choices_out)
    return out


def shrink(case):
    from simlib import esess
    for c in esess.shrink_history(case):
        yield c
    for key, simpler in (("m", 2), ("r", 0), ("shuffle_sel", 0)):
        if case[key] != simpler:
            c = dict(case)
            c.pop("choices", None)
            c[key] = simpler
            yield c


def reach(agg):
    need = []
    p = agg["probes"]
    for name in ("iface_sync", "iface_conc", "iface_async", "unshuffled",
                 "parallelism_above_shard_count",
                 "parallelism_not_multiple_of_shards",
                 "two_repeating_streams_interleaved",
                 "more_than_a_thousand_epochs",
                 "shuffled_pass_before_the_stream",
                 "selection_smaller_than_the_split"):
        if not p.get(name):
            need.append(f"probe {name} never hit")
    if bootstrap.RUST_SOURCE not in ("none", "stub") and not p.get(
            "iface_rust"):
        need.append("rust interface never exercised")
    return need
