"""C20 - reopening or relocating restores the full dataset; newer formats are
refused."""
from __future__ import annotations

import collections
import hashlib
import json
import os
import random
import re
import shutil

from simlib import bootstrap, dsgen, esess, fslayer, sched as S, simexec
from simlib.esess import Violation
from simlib.props import _sess_common as C

ID = "C20"
LEVEL = "exploration"
TECHNIQUE = ("deterministic simulation harness (E-sess): restart (reopen), "
             "relocation (copy / move, absolute / relative / '..' / symlinked "
             "access path) and version skew are operations of a seeded "
             "history that the reference model follows; descriptions are "
             "generated (unicode, nested JSON custom metadata at dataset, "
             "attribute and shard level, every format / compression / "
             "algorithm setting)")
RULE = ("case = random description + interleaved operations {session (root / "
        "sub / multi), reopen, relocate (copy|move to nested / unicode / "
        "blank-containing names; opened by absolute path, relative path after "
        "chdir, path with '..', symlinked parent), version skew (recorded "
        "version <, =, > running, multi-digit components, pre-releases), "
        "amend the description on the handle then write_config([]), create "
        "through a relative path then chdir}. "
        "Oracle: reloaded description == the writer's (model object and "
        "shard infos); at the new location check() passes, iteration equals "
        "the model, further sessions work; open fails iff the recorded "
        "version is newer. Non-trivial = at least one relocate or version "
        "operation; distinct = event digest.")
ASSUMPTIONS = C.ASSUMPTIONS + [
    "no schedule dimension; restart, relocation and version skew are history "
    "operations", "semantic-version order is computed independently for "
    "MAJOR.MINOR.PATCH with an optional -pre-release tag"]
REAL_STUB = C.REAL_STUB
NAMES = ["moved", "my data set", "dátová sada", "数据集", "a.b", "x-y_z",
         "nested/deep er/ü"]
WORDS = ["", "plain", "ünïcödé ✓", "line\nbreak", "quote\"s", "tab\there",
         "日本語", "back\\slash", " lead and trail "]


def budget(tier):
    return C.budget(tier, 35.0, 400.0)


def gen_json(rng, depth=0):
    r = rng.random()
    if depth >= 3 or r < 0.5:
        return rng.choice([
            rng.choice(WORDS), rng.randrange(-5, 5), 2**70, -2**63,
            0.5, -0.0, 1e308, 5e-324, 3.141592653589793, True, False, None])
    if r < 0.75:
        return [gen_json(rng, depth + 1) for _ in range(rng.randrange(0, 4))]
    return {rng.choice(["k", "key two", "ключ", "", "n"]) + str(i):
            gen_json(rng, depth + 1) for i in range(rng.randrange(0, 4))}


def gen_meta(rng):
    return {"k%d" % i: gen_json(rng, 1) for i in range(rng.randrange(0, 4))}


def gen_case(rng, tier, index):
    hist = dsgen.gen_history(
        rng, n_sessions=rng.randrange(1, 4),
        formats=("fb", "fb", "npz", "npz", "tfrec"), meta_modes=("none",),
        max_writers=2)
    st = hist["structure"]
    st["compression"] = rng.choice(dsgen.FORMATS[st["fmt"]])
    st["hashes"] = [rng.choice(dsgen.HASHES)
                    for _ in range(rng.choice([0, 1, 2, 13]))]
    for a in st["attrs"]:
        if rng.random() < 0.5:
            a["custom_metadata"] = gen_meta(rng)
    hist["metadata"] = {
        "description": rng.choice(WORDS), "dataset_license": rng.choice(WORDS),
        "dataset_version": rng.choice(["1.0.0", "0.0.1-β", ""]),
        "download_from": rng.choice(["", "https://example.org/ä?q=1"]),
        "custom_metadata": gen_meta(rng)}
    # the description declares the (older) library version that recorded it
    if rng.random() < 0.3:
        hist["metadata"]["sedpack_version"] = rng.choice(["0.0.1", "patch-1",
                                                          "zero"])
    # shard-level metadata values (nested JSON), used through "val" specs
    hist["shard_meta"] = [gen_meta(rng) or {"a": 1} for _ in range(3)]
    for ses in hist["sessions"]:
        for w in ses.get("writes", []):
            if rng.random() < 0.3:
                w["meta"] = ["val", rng.randrange(3)]
    ops = []
    for k in range(len(hist["sessions"])):
        ops.append({"op": "session", "k": k})
        for _ in range(rng.choice([0, 1, 1, 2])):
            kind = rng.choice(["reopen", "relocate", "relocate", "version",
                               "amend", "recorded_older"])
            if kind == "recorded_older":
                # the files were recorded by an older library version; the
                # running one opens them and goes on writing
                ops.append({"op": "recorded_older", "delta": rng.choice(
                    ["patch-1", "zero", "0.0.1"])})
                continue
            if kind == "amend":
                ops.append({"op": "amend", "what": rng.choice(
                    ["dataset", "attribute"]), "value": gen_meta(rng),
                    "reopen_first": rng.random() < 0.5})
                continue
            if kind == "relocate":
                ops.append({"op": "relocate", "how": rng.choice(["copy",
                                                                 "move"]),
                            "name": rng.choice(NAMES),
                            "access": rng.choice(["absolute", "relative",
                                                  "relative", "dotdot",
                                                  "dot", "symlink",
                                                  "tilde"])})
            elif kind == "version":
                ops.append({"op": "version", "delta": rng.choice(
                    ["same", "patch-1", "patch+1", "patch+3", "patch*10",
                     "patch+93", "minor+1", "major+1", "zero", "pre_same",
                     "pre_next", "minor+10"])})
            else:
                ops.append({"op": "reopen"})
    case = C.base_case(rng, hist)
    case["ops"] = ops
    # the dataset is created through a relative path and the working
    # directory changes afterwards (the handle is kept)
    case["create_relative"] = rng.random() < 0.3
    return case


def parse_version(v: str):
    m = re.match(r"^(\d+)\.(\d+)\.(\d+)(?:-([0-9A-Za-z.-]+))?$", v)
    core = tuple(int(x) for x in m.groups()[:3])
    return core, m.group(4)


def newer(recorded: str, running: str) -> bool:
    (rc, rp), (uc, up) = parse_version(recorded), parse_version(running)
    if rc != uc:
        return rc > uc
    if rp == up:
        return False
    if rp is None:
        return True  # release > its pre-releases
    if up is None:
        return False
    return rp > up


def skewed(running: str, delta: str) -> str:
    (ma, mi, pa), _ = parse_version(running)
    return {
        "same": f"{ma}.{mi}.{pa}", "patch-1": f"{ma}.{mi}.{max(0, pa - 1)}",
        "patch+1": f"{ma}.{mi}.{pa + 1}", "patch+3": f"{ma}.{mi}.{pa + 3}",
        "patch*10": f"{ma}.{mi}.{max(1, pa) * 10}",
        "patch+93": f"{ma}.{mi}.{pa + 93}", "minor+1": f"{ma}.{mi + 1}.0",
        "minor+10": f"{ma}.{mi + 10}.0", "major+1": f"{ma + 1}.0.0",
        "zero": "0.0.0", "pre_same": f"{ma}.{mi}.{pa}-rc1",
        "pre_next": f"{ma}.{mi}.{pa + 1}-rc1"}[delta]


def run_case(case):
    hist = case["hist"]
    st = hist["structure"]
    stats = collections.Counter()
    probes = collections.Counter()
    out = {"ok": True, "vclass": None, "detail": "", "key": {}}
    scratch = fslayer.new_scratch("reloc")
    root = os.path.join(scratch, "outer", "root")
    os.makedirs(os.path.dirname(root))
    saved_meta = list(dsgen.META_VALUES)
    sc = S.Sched(random.Random(case["sched_seed"]),
                 policy=case.get("policy", "random"),
                 choices=case.get("choices"), max_steps=300000)
    fs = fslayer.FS(scratch, random.Random(case["sched_seed"] ^ 0xF5))
    fs.keep_log = False
    cwd = os.getcwd()
    home = os.environ.get("HOME")
    nreloc = 0
    try:
        dsgen.META_VALUES[:3] = hist["shard_meta"]
        with dsgen.seams(hist["name_seed"], hist.get("clock", "monotone")), \
                fs, sc:
            import sedpack
            from sedpack.io.metadata import Metadata
            dv = hist["metadata"].get("sedpack_version")
            if dv and not dv[0].isdigit():
                hist["metadata"]["sedpack_version"] = skewed(
                    sedpack.__version__, dv)
            hr = dsgen.HistoryRunner(
                hist, root, pool_factory=lambda ses: simexec.SimPool)
            try:
                if case.get("create_relative"):
                    os.chdir(os.path.dirname(root))
                    hr.root = os.path.basename(root)  # "root", relative
                    hr.create(metadata=Metadata(**hist["metadata"]))
                    hr.root = root
                    elsewhere = os.path.join(scratch, "some where else")
                    os.makedirs(elsewhere, exist_ok=True)
                    os.chdir(elsewhere)
                    probes["created_relative_then_chdir"] += 1
                else:
                    hr.create(metadata=Metadata(**hist["metadata"]))
                for op in case["ops"]:
                    probes["op_" + op["op"]] += 1
                    if op["op"] == "session":
                        hist["sessions"][op["k"]]["reopen"] = False
                        try:
                            hr.run_session(op["k"])
                        except (S.SimDeadlock, S.SimStepLimit, S.SimAbort):
                            raise
                        except Exception as e:  # pylint: disable=broad-except
                            hr.model.abort()
                            if nreloc:
                                raise Violation(
                                    "C20", "writing_fails_after_relocation",
                                    f"session {op['k']} at "
                                    f"{os.path.relpath(hr.root, scratch)!r} "
                                    f"(handle opened via {hr.ds_opened_via!r})"
                                    f": {type(e).__name__}: {str(e)[:200]}",
                                    key={"access": hr.access}) from e
                            probes["session_raised"] += 1
                            break
                    elif op["op"] == "reopen":
                        hr.ds = hr.sio.Dataset(hr.root)
                    elif op["op"] == "amend":
                        # the description is amended and saved without any
                        # new shard
                        if op["reopen_first"]:
                            hr.ds = hr.sio.Dataset(hr.root)
                        if op["what"] == "dataset":
                            hist["metadata"]["custom_metadata"] = op["value"]
                            md = hr.ds.metadata.model_copy(
                                update={"custom_metadata": op["value"]})
                            hr.ds.metadata = md
                        else:
                            st["attrs"][0]["custom_metadata"] = op["value"]
                            hr.ds.dataset_structure.saved_data_description[
                                0].custom_metadata = op["value"]
                        hr.ds.write_config(updated_infos=[])
                    elif op["op"] == "relocate":
                        nreloc += 1
                        relocate(hr, op, scratch, nreloc, probes)
                    elif op["op"] == "version":
                        version_gate(hr, op, sedpack.__version__, stats)
                    elif op["op"] == "recorded_older":
                        older = (op["delta"] if op["delta"][0].isdigit() else
                                 skewed(sedpack.__version__, op["delta"]))
                        path = os.path.join(hr.root, "dataset_info.json")
                        with fslayer.real_open(path, encoding="utf-8") as f:
                            doc = json.load(f)
                        doc["metadata"]["sedpack_version"] = older
                        with fslayer.real_open(path, "w",
                                               encoding="utf-8") as f:
                            json.dump(doc, f)
                        hist["metadata"]["sedpack_version"] = older
                        hr.ds = hr.sio.Dataset(hr.root)
                    with fs.suspended():
                        oracle_reload(hr, stats)
                        if nreloc:
                            oracle_moved(hr, stats)
                        for orig in getattr(hr, "originals", ()):
                            oracle_original(hr, orig, stats)
            except Violation as v:
                out.update(ok=False, vclass=v.vclass, detail=v.detail,
                           key=dict(v.key, engine="E-sess", fmt=st["fmt"]))
            except S.SimDeadlock as e:
                out.update(ok=False, vclass="deadlock", detail=str(e),
                           key={"engine": "E-sess"})
    finally:
        os.chdir(cwd)
        if home is not None:
            os.environ["HOME"] = home
        dsgen.META_VALUES[:] = saved_meta
        shutil.rmtree(scratch, ignore_errors=True)
    stats["fs_effects"] += fs.n_effects
    out.update({
        "digest": hashlib.sha1((sc.digest() + repr(sorted(
            stats.items()))).encode()).hexdigest(),
        "nontrivial": bool(probes.get("op_relocate") or
                           probes.get("op_version")),
        "stats": dict(stats), "probes": dict(probes),
        "sample": {"structure": st, "metadata": hist["metadata"],
                   "ops": case["ops"]},
    })
    return out


def relocate(hr, op, scratch, n, probes):
    new_parent = os.path.join(scratch, "place%d" % n)
    new_root = os.path.join(new_parent, op["name"])
    os.makedirs(os.path.dirname(new_root), exist_ok=True)
    if op["how"] == "copy":
        # the original stays where it is: whatever is done to the copy from
        # now on, opening the original reconstructs what ITS files say
        import copy as _copy
        if not hasattr(hr, "originals"):
            hr.originals = []
        hr.originals.append({
            "root": hr.root,
            "snapshot": _copy.deepcopy(hr.sio.Dataset(hr.root)._dataset_info),  # pylint: disable=protected-access
            "digest": esess.tree_digest(hr.root)})
        shutil.copytree(hr.root, new_root)
    else:
        shutil.move(hr.root, new_root)
    probes["relocate_" + op["how"]] += 1
    probes["access_" + op["access"]] += 1
    access = op["access"]
    if access == "absolute":
        path = new_root
    elif access == "relative":
        os.chdir(new_parent)
        path = op["name"]
    elif access == "dot":
        os.chdir(new_parent)
        path = "./" + op["name"] + "/"
    elif access == "dotdot":
        side = os.path.join(new_parent, "side dir")
        os.makedirs(side, exist_ok=True)
        os.chdir(side)
        path = os.path.join("..", op["name"])
    elif access == "tilde":
        # "~/name" with the home directory pointing at the new parent
        os.environ["HOME"] = new_parent
        path = "~/" + op["name"]
    else:  # through a symlinked parent directory
        link = os.path.join(scratch, "link%d" % n)
        os.symlink(new_parent, link)
        path = os.path.join(link, op["name"])
    hr.root = new_root
    hr.access = access
    hr.ds_opened_via = path
    try:
        hr.ds = hr.sio.Dataset(path)
    except Exception as e:  # pylint: disable=broad-except
        raise Violation("C20", "relocated_dataset_does_not_open",
                        f"{op}: {type(e).__name__}: {str(e)[:200]}",
                        key={"access": access}) from e


def oracle_original(hr, orig, stats):
    if not os.path.isdir(orig["root"]) or esess.tree_digest(
            orig["root"]) != orig["digest"]:
        return  # (moved away or legitimately written to later)
    try:
        fresh = hr.sio.Dataset(orig["root"])
        same = fresh._dataset_info == orig["snapshot"]  # pylint: disable=protected-access
        fresh.check(show_progressbar=False)
    except Exception as e:  # pylint: disable=broad-except
        raise Violation(
            "C20", "original_of_a_copy_no_longer_opens_or_verifies",
            f"its files are unchanged: {type(e).__name__}: {str(e)[:200]}",
            key={"what": "original"}) from e
    if not same:
        raise Violation(
            "C20", "reloaded_description_differs",
            "a fresh open of the untouched original of a copy reports another "
            "description than its files hold", key={"fields": "original"})
    stats["originals_of_copies_checked"] += 1


def oracle_reload(hr, stats):
    fresh = hr.sio.Dataset(hr.root)
    a, b = fresh._dataset_info, hr.ds._dataset_info  # pylint: disable=protected-access
    if a != b:
        diff = [f for f in ("metadata", "dataset_structure", "splits")
                if getattr(a, f) != getattr(b, f)]
        raise Violation("C20", "reloaded_description_differs",
                        f"fields {diff} differ between the writer's handle "
                        f"and a fresh open", key={"fields": ",".join(diff)})
    if list(fresh.shard_info_iterator(None)) != list(
            hr.ds.shard_info_iterator(None)):
        raise Violation("C20", "reloaded_shard_infos_differ", "")
    # the stored JSON itself still describes what the generator asked for
    with fslayer.real_open(os.path.join(hr.root, "dataset_info.json"),
                           encoding="utf-8") as f:
        doc = json.load(f)
    want = hr.hist["metadata"]
    for k, v in want.items():
        if doc["metadata"].get(k) != v:
            raise Violation("C20", "stored_description_differs_from_input",
                            f"metadata.{k}: {doc['metadata'].get(k)!r} != "
                            f"{v!r}", key={"field": k})
    for a_doc, a_want in zip(doc["dataset_structure"]["saved_data_description"],
                             hr.st["attrs"]):
        if a_doc.get("custom_metadata", {}) != a_want.get("custom_metadata",
                                                          {}):
            raise Violation("C20", "stored_description_differs_from_input",
                            f"attribute {a_want['name']} custom_metadata",
                            key={"field": "attribute.custom_metadata"})
    stats["reload_checks"] += 1


def oracle_moved(hr, stats):
    st = hr.st
    try:
        hr.ds.check(show_progressbar=False)
    except Exception as e:  # pylint: disable=broad-except
        raise Violation("C20", "check_fails_after_relocation",
                        f"{type(e).__name__}: {str(e)[:200]}",
                        key={"access": hr.access}) from e
    for split in set(hr.model.committed) | set(hr.ds._dataset_info.splits):  # pylint: disable=protected-access
        try:
            got = dsgen.read_sync(hr.ds, split, st["attrs"]) if split in \
                hr.ds._dataset_info.splits else []  # pylint: disable=protected-access
        except Exception as e:  # pylint: disable=broad-except
            raise Violation("C20", "iteration_fails_after_relocation",
                            f"{split}: {type(e).__name__}: {str(e)[:200]}",
                            key={"access": hr.access}) from e
        err = dsgen.check_examples(got, st["attrs"], st["fmt"])
        if err or collections.Counter(i for i, _ in got) != \
                collections.Counter(hr.model.ids(split)):
            raise Violation("C20", "content_differs_after_relocation",
                            f"{split}: {err}", key={"access": hr.access})
    stats["relocated_checks"] += 1


def version_gate(hr, op, running, stats):
    path = os.path.join(hr.root, "dataset_info.json")
    with fslayer.real_open(path, encoding="utf-8") as f:
        original = f.read()
    doc = json.loads(original)
    recorded = skewed(running, op["delta"])
    doc["metadata"]["sedpack_version"] = recorded
    with fslayer.real_open(path, "w", encoding="utf-8") as f:
        json.dump(doc, f)
    try:
        try:
            hr.sio.Dataset(hr.root)
            opened = True
        except Exception:  # pylint: disable=broad-except
            opened = False
        must_refuse = newer(recorded, running)
        if opened and must_refuse:
            raise Violation("C20", "newer_version_not_refused",
                            f"recorded {recorded} running {running}",
                            key={"delta": op["delta"]})
        if not opened and not must_refuse:
            raise Violation("C20", "same_or_older_version_refused",
                            f"recorded {recorded} running {running}",
                            key={"delta": op["delta"]})
        stats["version_gate_checks"] += 1
        stats["version_refusals"] += int(not opened)
    finally:
        with fslayer.real_open(path, "w", encoding="utf-8") as f:
            f.write(original)


def shrink(case):
    ops = case["ops"]
    for i in range(len(ops) - 1, -1, -1):
        if ops[i]["op"] != "session":
            c = dict(case)
            c["ops"] = ops[:i] + ops[i + 1:]
            yield c
    for i in range(len(ops) - 1, -1, -1):
        if ops[i]["op"] == "session" and sum(
                1 for o in ops if o["op"] == "session") > 1:
            c = dict(case)
            c["ops"] = ops[:i] + ops[i + 1:]
            yield c


def reach(agg):
    need = []
    p, s = agg["probes"], agg["stats"]
    for name in ("op_relocate", "op_version", "op_reopen", "op_amend",
                 "created_relative_then_chdir", "relocate_copy",
                 "relocate_move", "access_absolute", "access_relative",
                 "access_dotdot", "access_symlink"):
        if not p.get(name):
            need.append(f"probe {name} never hit")
    if not s.get("version_refusals"):
        need.append("no newer version refused")
    if not s.get("relocated_checks"):
        need.append("no relocated dataset checked")
    return need
