"""Generic seeded-run driver shared by every property check.

A property module provides
    ID, LEVEL, TECHNIQUE, RULE, ASSUMPTIONS, REAL_STUB
    budget(tier) -> {"wall_s": float, "max_cases": int, "case_timeout": float}
    gen_case(rng, tier, index) -> JSON-able dict      (pure function of rng)
    run_case(case) -> dict(ok, vclass, detail, digest, nontrivial, stats,
                           faults, probes, sample, key)
    shrink(case) -> iterator of simpler candidate cases   (optional)
    reach(agg) -> list[str] unmet minimum-reach requirements (optional)
    setup(tier) -> None   (build steps, run once in the parent; optional)

One integer (VERIF_SEED) decides everything: case i of property P is generated
from random.Random(sha256(f"{VERIF_SEED}:{P}:{i}")).  A case is the replay
file: run_case(case) is a pure function of the case and the code under test.
"""
from __future__ import annotations

import collections
import faulthandler
import hashlib
import importlib
import json
import multiprocessing
import os
import random
import shutil
import signal
import subprocess
import sys
import time
import traceback

VERIF = os.path.dirname(os.path.dirname(os.path.abspath(__file__)))
# (VERIF_OUT redirects evidence and replays of mutant sweeps / self-tests so
# that they never overwrite the evidence of the real tree)
_ALT = os.environ.get("VERIF_OUT")
OUT = _ALT or os.path.join(VERIF, "out")
REPLAYS = os.path.join(OUT, "replays")
EVIDENCE = os.path.join(_ALT, "evidence") if _ALT else os.path.join(
    VERIF, "evidence")
KNOWN = os.path.join(VERIF, "known_findings.json")


class CaseTimeout(BaseException):
    pass


def sub_seed(seed: int, prop: str, index: int) -> int:
    h = hashlib.sha256(f"{seed}:{prop}:{index}".encode()).hexdigest()
    return int(h[:16], 16)


def load_prop(prop_id: str):
    return importlib.import_module(f"simlib.props.{prop_id.lower()}")


def case_for(mod, seed: int, tier: str, index: int) -> dict:
    s = sub_seed(seed, mod.ID, index)
    rng = random.Random(s)
    case = mod.gen_case(rng, tier, index)
    case["_sub_seed"] = s
    case["_index"] = index
    return case


def die_with_parent() -> None:
    """Linux: deliver SIGKILL to this process when its parent dies, so that a
    helper process hung in native code can never outlive the check (and keep
    an inherited pipe open)."""
    try:
        import ctypes
        ctypes.CDLL("libc.so.6", use_errno=True).prctl(1, signal.SIGKILL)
    except Exception:  # pylint: disable=broad-except
        pass


def limit_memory() -> None:
    """Cap the data segment of a worker: code under test that materialises an
    unbounded stream gets a MemoryError (an attributable outcome of the case)
    instead of taking the machine down.  A worker with TensorFlow loaded uses
    about 1.2 GiB of data segment."""
    import resource
    cap = int(float(os.environ.get("VERIF_DATA_LIMIT_GB", "3.5")) * 2**30)
    try:
        resource.setrlimit(resource.RLIMIT_DATA, (cap, cap))
    except (ValueError, OSError):  # pragma: no cover
        pass


def _alarm(signum, frame):
    raise CaseTimeout()


def run_one(mod, case: dict, timeout: float) -> dict:
    """Run one case with a wall-clock guard.  Never raises."""
    signal.signal(signal.SIGALRM, _alarm)
    signal.setitimer(signal.ITIMER_REAL, timeout)
    t0 = time.time()
    if os.environ.get("VERIF_DEBUG"):
        faulthandler.dump_traceback_later(max(1.0, timeout - 3), exit=False)
    try:
        res = mod.run_case(case)
    except CaseTimeout:
        res = {"ok": True, "harness_error": f"case wall timeout {timeout}s",
               "digest": "timeout"}
    except Exception:  # pylint: disable=broad-except
        res = {"ok": True, "harness_error": traceback.format_exc(limit=12),
               "digest": "error"}
    finally:
        signal.setitimer(signal.ITIMER_REAL, 0)
        if os.environ.get("VERIF_DEBUG"):
            faulthandler.cancel_dump_traceback_later()
    res.setdefault("stats", {})
    res.setdefault("faults", {})
    res.setdefault("probes", {})
    res.setdefault("nontrivial", False)
    res.setdefault("vclass", None)
    res.setdefault("detail", "")
    res["wall"] = time.time() - t0
    return res


def _worker(mod_id: str, seed: int, tier: str, w: int, nw: int, deadline: float,
            max_cases: int, case_timeout: float, out_path: str,
            start: int = 0) -> None:
    faulthandler.enable()
    die_with_parent()
    limit_memory()
    mod = load_prop(mod_id)
    agg = new_agg()
    i = start + w
    cur_path = out_path + ".current"
    last_dump = time.time()

    def dump() -> None:
        snap = dict(agg)
        snap["digests"] = sorted(agg["digests"])
        snap["states"] = sorted(agg["states"])[:200000]
        with open(out_path + ".tmp", "w", encoding="utf-8") as f:
            json.dump(snap, f)
        os.replace(out_path + ".tmp", out_path)

    done: list = []  # indices this process has run so far
    try:
        while i < max_cases and time.time() < deadline:
            case = case_for(mod, seed, tier, i)
            # (if this process dies or hangs in native code the parent re-runs
            # exactly this case in a sandboxed interpreter)
            with open(cur_path, "w", encoding="utf-8") as f:
                json.dump(case, f)
            if time.time() - last_dump > 5.0:
                dump()
                last_dump = time.time()
            res = run_one(mod, case, case_timeout)
            if (str(res.get("harness_error", "")).startswith(
                    "case wall timeout") and
                    getattr(mod, "HANG_IS_VIOLATION", False)):
                # a busy loop in plain Python code has no yield point at
                # which the step budget could stop it: for properties that
                # promise termination the case is run again in a fresh
                # interpreter with a longer deadline; a second time-out is
                # the verdict (an answer replaces the time-out)
                wall = res.get("wall", 0.0)
                mem = float(os.environ.get("VERIF_MEM_LIMIT_GB", "6")) * 2**30
                again = rerun_sandboxed(mod_id, cur_path, case_timeout + 60,
                                        mem)
                if again.get("sandbox_failure"):
                    res = {"ok": False,
                           "vclass": "hang_or_blowup_observed_by_watchdog",
                           "detail": f"case {case.get('_index')}: no result "
                           f"within {case_timeout:.0f} s; re-run in a fresh "
                           f"interpreter: {again['sandbox_failure']}",
                           "key": {"engine": "watchdog"},
                           "digest": "watchdog", "stats": {}, "faults": {},
                           "probes": {"watchdog_verdicts": 1},
                           "nontrivial": False, "wall": wall}
                else:
                    res = again
                    for k_, d_ in (("stats", {}), ("faults", {}),
                                   ("probes", {}), ("nontrivial", False),
                                   ("vclass", None), ("detail", "")):
                        res.setdefault(k_, d_)
                    res["wall"] = wall
            if os.environ.get("VERIF_DEBUG") and res.get("wall", 0) > 3:
                print(f"[debug] slow case {i}: {res['wall']:.1f}s "
                      f"{res.get('vclass')}", file=sys.stderr)
            fold(agg, case, res, preceded_by=done)
            done.append(i)
            agg["max_index"] = max(agg.get("max_index", -1), i)
            i += nw
        try:
            os.unlink(cur_path)
        except OSError:
            pass
    finally:
        dump()


def new_agg() -> dict:
    return {"evaluations": 0, "violations": [], "harness_errors": [],
            "digests": set(), "states": set(), "stats": {}, "faults": {},
            "probes": {}, "samples": [], "wall_cases": 0.0, "nontrivial": 0,
            "case_digests": {}, "max_index": -1}


def fold(agg: dict, case: dict, res: dict, preceded_by=None) -> None:
    agg["evaluations"] += 1
    agg["wall_cases"] += res.get("wall", 0.0)
    for k in ("stats", "faults", "probes"):
        for name, v in res.get(k, {}).items():
            agg[k][name] = agg[k].get(name, 0) + v
    if res.get("harness_error"):
        if len(agg["harness_errors"]) < 5:
            agg["harness_errors"].append({"case": case,
                                          "error": res["harness_error"]})
        agg["stats"]["harness_errors"] = agg["stats"].get("harness_errors",
                                                          0) + 1
        return
    if res.get("nontrivial"):
        agg["nontrivial"] += 1
        agg["digests"].add(res.get("digest", ""))
    for s in res.get("states", ()):
        agg["states"].add(s)
    if case["_index"] < 8:
        agg["case_digests"][str(case["_index"])] = res.get("digest", "")
    if not res.get("ok", True):
        if len(agg["violations"]) < 40:
            agg["violations"].append({
                "case": case, "vclass": res.get("vclass"),
                "detail": res.get("detail", "")[:2000],
                "key": res.get("key", {}),
                "digest": res.get("digest", ""),
                # the cases this worker process ran before (a violation may
                # depend on state the code under test kept from them)
                "preceded_by": list(preceded_by or ())[-300:]})
        agg["stats"]["violating_runs"] = agg["stats"].get("violating_runs",
                                                          0) + 1
    if len(agg["samples"]) < 2 and res.get("sample") is not None:
        agg["samples"].append(res["sample"])


def merge(aggs: list[dict]) -> dict:
    tot = new_agg()
    for a in aggs:
        tot["evaluations"] += a["evaluations"]
        tot["wall_cases"] += a["wall_cases"]
        tot["nontrivial"] += a["nontrivial"]
        tot["violations"].extend(a["violations"])
        tot["harness_errors"].extend(a["harness_errors"])
        tot["digests"].update(a["digests"])
        tot["states"].update(a["states"])
        tot["case_digests"].update(a["case_digests"])
        tot["max_index"] = max(tot["max_index"], a.get("max_index", -1))
        for k in ("stats", "faults", "probes"):
            for name, v in a[k].items():
                tot[k][name] = tot[k].get(name, 0) + v
        for s in a["samples"]:
            if len(tot["samples"]) < 4:
                tot["samples"].append(s)
    tot["violations"].sort(key=lambda v: v["case"]["_index"])
    return tot


def load_known() -> list[dict]:
    if not os.path.exists(KNOWN):
        return []
    with open(KNOWN, encoding="utf-8") as f:
        return json.load(f).get("findings", [])


def match_known(prop: str, vio: dict, known: list[dict]):
    """An *open* finding matches when every field of its key equals the
    corresponding field of the violation's key (vclass included)."""
    key = dict(vio.get("key") or {})
    key["vclass"] = vio.get("vclass")
    for k in known:
        if k.get("property") != prop or k.get("status") != "open":
            continue
        want = k.get("key", {})
        if want and all(key.get(f) == v for f, v in want.items()):
            return k
    return None


def isolated_run_one(mod, case: dict, timeout: float) -> dict:
    """run_one in a forked child (the parent of a check must survive code
    under test that hangs in native code or eats memory)."""
    # (result through a file: a pipe could be kept open by a grandchild hung
    # in native code, and a large result would fill it)
    res_path = f"/dev/shm/verif-iso-{os.getpid()}-{time.time_ns()}.json"
    rstate = random.getstate()
    pid = os.fork()
    if pid == 0:
        code = 0
        try:
            die_with_parent()
            random.setstate(rstate)
            limit_memory()
            res = run_one(mod, case, timeout)
            keep = {k: res.get(k) for k in ("ok", "vclass", "detail", "key",
                                           "digest", "harness_error")}
            keep["case"] = case  # (run_case may add recorded choices)
            with open(res_path + ".tmp", "w", encoding="utf-8") as f:
                json.dump(keep, f, default=str)
            os.replace(res_path + ".tmp", res_path)
        except BaseException:  # pylint: disable=broad-except
            code = 3
        finally:
            os._exit(code)
    t0 = time.time()
    while True:
        got, _ = os.waitpid(pid, os.WNOHANG)
        if got:
            break
        if time.time() - t0 > timeout + 3 or rss_of_tree(pid) > 6 * 2**30:
            kill_tree(pid)
            os.waitpid(pid, 0)
            for p_ in (res_path, res_path + ".tmp"):
                if os.path.exists(p_):
                    os.unlink(p_)
            return {"ok": True, "harness_error": "isolated run killed "
                    "(time or memory)"}
        time.sleep(0.02)
    if not os.path.exists(res_path):
        return {"ok": True, "harness_error": "isolated run died"}
    with open(res_path, encoding="utf-8") as f:
        data = f.read()
    os.unlink(res_path)
    res = json.loads(data)
    case.clear()
    case.update(res.pop("case"))
    return res


def minimise(mod, vio: dict, budget_s: float, case_timeout: float) -> dict:
    """Greedy shrinking: accept a candidate when it still fails with the same
    violation class (and the same known-finding key)."""
    if not hasattr(mod, "shrink") or (vio.get("key") or {}).get(
            "engine") == "watchdog":
        return vio
    best = vio
    deadline = time.time() + budget_s
    # does the case fail on its own, in a process that ran nothing before?
    # If not (state kept by the code under test across calls, or a native
    # race) it is kept as found, together with the cases that preceded it
    alone = isolated_run_one(mod, dict(vio["case"]),
                             max(3.0, min(case_timeout, 90.0)))
    if not (not alone.get("ok", True) and not alone.get("harness_error") and
            alone.get("vclass") == vio["vclass"]):
        alone = isolated_run_one(mod, dict(vio["case"]),
                                 max(3.0, min(case_timeout, 90.0)))
    if not (not alone.get("ok", True) and not alone.get("harness_error") and
            alone.get("vclass") == vio["vclass"]):
        vio = dict(vio)
        vio["needs_prefix"] = bool(vio.get("preceded_by"))
        return vio
    improved = True
    while improved and time.time() < deadline:
        improved = False
        for cand in mod.shrink(best["case"]):
            if time.time() >= deadline:
                break
            cand = dict(cand)
            cand["_sub_seed"] = best["case"].get("_sub_seed")
            cand["_index"] = best["case"].get("_index")
            cand["_minimised"] = True
            # never let one slow candidate (a hang the watchdogs of the case
            # wait for) carry the minimiser past its budget
            def same(r) -> bool:
                return (not r.get("ok", True) and not r.get("harness_error")
                        and r.get("vclass") == best["vclass"] and
                        (r.get("key") or {}) == (best.get("key") or {}))

            res = isolated_run_one(
                mod, cand, max(3.0, min(case_timeout, 60.0,
                                        deadline - time.time())))
            # a smaller case is only worth having if it fails every time
            # (components the simulator does not control - tf.data, native
            # threads - may make a small case fail by luck): it has to fail
            # the same way in a second isolated run
            if same(res) and same(isolated_run_one(
                    mod, cand, max(3.0, min(case_timeout, 60.0,
                                            deadline - time.time())))):
                best = {"case": cand, "vclass": res["vclass"],
                        "detail": res.get("detail", "")[:2000],
                        "key": res.get("key", {}),
                        "digest": res.get("digest", "")}
                improved = True
                break
    return best


def write_replay(prop: str, vio: dict, seed: int) -> str:
    os.makedirs(REPLAYS, exist_ok=True)
    name = f"{prop}-seed{seed}-i{vio['case'].get('_index')}-{vio['vclass']}.json"
    path = os.path.join(REPLAYS, name.replace("/", "_"))
    with open(path, "w", encoding="utf-8") as f:
        doc = {"property": prop, "verif_seed": seed,
               "violation_class": vio["vclass"], "detail": vio["detail"],
               "key": vio.get("key", {}),
               "event_digest": vio.get("digest", ""),
               "case": vio["case"]}
        if vio.get("needs_prefix"):
            # did not fail on its own: replay runs these cases of the same
            # (seed, tier) first, in the same process
            doc["preceded_by"] = {"tier": vio.get("tier", "quick"),
                                  "indices": vio["preceded_by"]}
        json.dump(doc, f, indent=1, sort_keys=True)
    return path


def determinism_probe(mod_id: str, seed: int, tier: str, expect: dict,
                      hashseed: str) -> str | None:
    """Re-run the first few cases in a fresh interpreter under another
    PYTHONHASHSEED and compare event digests."""
    idx = sorted(int(k) for k in expect)[:3]
    if not idx:
        return None
    env = dict(os.environ)
    env["PYTHONHASHSEED"] = hashseed
    env["VERIF_SEED"] = str(seed)
    cmd = [sys.executable, os.path.join(VERIF, "simlib", "main.py"),
           "digests", mod_id, tier, ",".join(map(str, idx))]
    try:
        out = subprocess.run(cmd, env=env, capture_output=True, text=True,
                             timeout=300, check=False)
    except subprocess.TimeoutExpired:
        return "determinism probe timed out"
    got = None
    for line in out.stdout.splitlines():
        if line.startswith("DIGESTS "):
            got = json.loads(line[8:])
    if got is None:
        return f"determinism probe produced no digests: {out.stderr[-600:]}"
    for i in idx:
        if got.get(str(i)) != expect[str(i)]:
            return (f"digest mismatch for case {i}: {expect[str(i)]} vs "
                    f"{got.get(str(i))} under PYTHONHASHSEED={hashseed}")
    return None


def _children(pid: int) -> list[int]:
    out = []
    try:
        for t in os.listdir(f"/proc/{pid}/task"):
            with open(f"/proc/{pid}/task/{t}/children", encoding="ascii") as f:
                out += [int(x) for x in f.read().split()]
    except OSError:
        pass
    return out


def _tree(pid: int) -> list[int]:
    res = [pid]
    for c in _children(pid):
        res += _tree(c)
    return res


def rss_of_tree(pid: int) -> float:
    total = 0
    for p in _tree(pid):
        try:
            with open(f"/proc/{p}/statm", encoding="ascii") as f:
                total += int(f.read().split()[1]) * 4096
        except (OSError, IndexError, ValueError):
            pass
    return total


def kill_tree(pid: int) -> None:
    for p in reversed(_tree(pid)):
        try:
            os.kill(p, signal.SIGKILL)
        except OSError:
            pass


def rerun_sandboxed(mod_id: str, case_path: str, timeout: float,
                    mem_limit: float) -> dict:
    cmd = [sys.executable, os.path.join(VERIF, "simlib", "main.py"),
           "runcase", mod_id, case_path]
    out_path = f"/dev/shm/verif-rerun-{os.getpid()}-{time.time_ns()}.txt"
    out_f = open(out_path, "w", encoding="utf-8")  # pylint: disable=consider-using-with
    proc = subprocess.Popen(cmd, stdout=out_f, stderr=subprocess.DEVNULL,
                            text=True, start_new_session=True)
    t0 = time.time()
    failure = None
    while proc.poll() is None:
        if time.time() - t0 > timeout:
            failure = f"no result within {timeout:.0f} s"
        elif rss_of_tree(proc.pid) > mem_limit:
            failure = (f"resident memory above {mem_limit / 2**30:.0f} GiB")
        if failure:
            kill_tree(proc.pid)
            try:
                os.killpg(proc.pid, signal.SIGKILL)
            except OSError:
                pass
            proc.wait()
            out_f.close()
            os.unlink(out_path)
            return {"sandbox_failure": failure}
        time.sleep(0.25)
    out_f.close()
    with open(out_path, encoding="utf-8") as f:
        out = f.read()
    os.unlink(out_path)
    for line in out.splitlines():
        if line.startswith("RUNCASE_JSON "):
            return json.loads(line[13:])
    return {"sandbox_failure": f"interpreter exited with {proc.returncode} "
            f"and no result"}


def cmd_digests(mod_id: str, tier: str, indices: str) -> int:
    limit_memory()
    seed = int(os.environ.get("VERIF_SEED", "0"))
    mod = load_prop(mod_id)
    if hasattr(mod, "setup"):
        mod.setup(tier, build=False)
    b = mod.budget(tier)
    out = {}
    for i in (int(x) for x in indices.split(",") if x):
        res = run_one(mod, case_for(mod, seed, tier, i), b["case_timeout"])
        out[str(i)] = res.get("digest", "")
    print("DIGESTS " + json.dumps(out))
    return 0


def sweep_stale_scratch() -> None:
    """Remove scratch directories of check processes that no longer exist
    (killed runs)."""
    import re
    for name in os.listdir("/dev/shm"):
        m = re.match(r"verif-(?:run-|tmp-)?(\d+)", name)
        if m and not os.path.exists(f"/proc/{m.group(1)}"):
            shutil.rmtree(os.path.join("/dev/shm", name), ignore_errors=True)


def cmd_check(mod_id: str, tier: str) -> int:
    t0 = time.time()
    sweep_stale_scratch()
    limit_memory()  # inherited by every child; the parent itself needs little
    seed = int(os.environ.get("VERIF_SEED", "0"))
    mod = load_prop(mod_id)
    prop = mod.ID
    b = mod.budget(tier)
    if os.environ.get("VERIF_BUDGET_S"):
        b["wall_s"] = float(os.environ["VERIF_BUDGET_S"])
    if os.environ.get("VERIF_MAX_CASES"):
        b["max_cases"] = int(os.environ["VERIF_MAX_CASES"])
    nw = int(os.environ.get("VERIF_WORKERS", b.get("workers", 16)))
    if hasattr(mod, "setup"):
        mod.setup(tier, build=True)
    agg, harness_problems = run_round(mod, mod_id, seed, tier, nw, b, 0)
    # vacuity guard: when a minimum-reach requirement is not met within the
    # budget (slow or busy machine) explore further before giving up
    rounds = 1
    while (hasattr(mod, "reach") and not agg["violations"] and
           not harness_problems and mod.reach(agg) and rounds < 3):
        more, hp = run_round(mod, mod_id, seed, tier, nw, b,
                             agg["max_index"] + 1)
        more["digests"] = sorted(more["digests"])
        more["states"] = sorted(more["states"])
        agg["digests"] = sorted(agg["digests"])
        agg["states"] = sorted(agg["states"])
        agg = merge([agg, more])
        harness_problems += hp
        rounds += 1
    sim_wall = time.time() - t0
    return finish_check(mod, mod_id, prop, seed, tier, nw, b, agg,
                        harness_problems, sim_wall, t0, rounds)


def run_round(mod, mod_id: str, seed: int, tier: str, nw: int, b: dict,
              start: int):
    tmp = f"/dev/shm/verif-run-{os.getpid()}-{start}"
    os.makedirs(tmp, exist_ok=True)
    ctx = multiprocessing.get_context("fork")
    deadline = time.time() + b["wall_s"]
    procs = []
    for w in range(nw):
        p = ctx.Process(target=_worker,
                        args=(mod_id, seed, tier, w, nw, deadline,
                              b["max_cases"], b["case_timeout"],
                              os.path.join(tmp, f"w{w}.json"), start))
        p.start()
        procs.append(p)
    harness_problems = []
    hard = deadline + b["case_timeout"] + 30
    mem_limit = float(os.environ.get("VERIF_MEM_LIMIT_GB", "6")) * 2**30
    abnormal = {}
    alive = dict(enumerate(procs))
    while alive:
        for w, p in list(alive.items()):
            if not p.is_alive():
                p.join()
                if p.exitcode != 0:
                    abnormal[w] = f"exit code {p.exitcode}"
                del alive[w]
            elif time.time() > hard:
                kill_tree(p.pid)
                p.join()
                abnormal[w] = "no answer (killed by the watchdog)"
                del alive[w]
            elif rss_of_tree(p.pid) > mem_limit:
                kill_tree(p.pid)
                p.join()
                abnormal[w] = (f"resident memory above "
                               f"{mem_limit / 2**30:.0f} GiB (killed)")
                del alive[w]
        time.sleep(0.25)
    aggs = []
    for w in range(nw):
        path = os.path.join(tmp, f"w{w}.json")
        if os.path.exists(path):
            with open(path, encoding="utf-8") as f:
                aggs.append(json.load(f))
        elif w not in abnormal:
            harness_problems.append(f"worker {w} wrote no result")
    # a worker that died or hung in native code: re-run the case it was on in
    # a sandboxed fresh interpreter so that the outcome is attributable
    extra = new_agg()
    reruns = 0
    for w, why in sorted(abnormal.items()):
        cur = os.path.join(tmp, f"w{w}.json.current")
        if reruns >= 2 and extra["violations"]:
            continue  # verdict established; do not re-run every dead worker
        reruns += 1
        if not os.path.exists(cur):
            harness_problems.append(f"worker {w}: {why} (between cases)")
            continue
        with open(cur, encoding="utf-8") as f:
            case = json.load(f)
        res = rerun_sandboxed(mod_id, cur, b["case_timeout"] + 60, mem_limit)
        if res.get("sandbox_failure"):
            if getattr(mod, "HANG_IS_VIOLATION", False):
                res = {"ok": False,
                       "vclass": "hang_or_blowup_observed_by_watchdog",
                       "detail": f"case {case.get('_index')}: worker {why}; "
                       f"re-run in a fresh interpreter: "
                       f"{res['sandbox_failure']}",
                       "key": {"engine": "watchdog"}, "digest": "watchdog"}
            else:
                harness_problems.append(
                    f"worker {w}: {why}; re-run: {res['sandbox_failure']}")
                continue
        fold(extra, case, res)
    extra["digests"] = sorted(extra["digests"])
    extra["states"] = sorted(extra["states"])
    aggs.append(extra)
    shutil.rmtree(tmp, ignore_errors=True)
    agg = merge(aggs) if aggs else new_agg()
    return agg, harness_problems


def finish_check(mod, mod_id: str, prop: str, seed: int, tier: str, nw: int,
                 b: dict, agg: dict, harness_problems: list, sim_wall: float,
                 t0: float, rounds: int) -> int:
    if os.environ.get("VERIF_DEBUG"):
        print(f"[debug] workers done at {sim_wall:.1f}s", file=sys.stderr)

    for he in agg["harness_errors"][:3]:
        harness_problems.append("case error: " + he["error"][-1500:])

    # determinism sample (fresh interpreter, other hash seed)
    if agg["case_digests"] and not os.environ.get("VERIF_NO_DETERMINISM"):
        other = "1" if os.environ.get("PYTHONHASHSEED", "0") == "0" else "0"
        problem = determinism_probe(mod_id, seed, tier, agg["case_digests"],
                                    other)
        if problem:
            harness_problems.append("NONDETERMINISM: " + problem)

    # violations: known findings vs new
    known = load_known()
    reported_known: dict[str, dict] = {}
    fresh: dict[str, dict] = {}
    for vio in agg["violations"]:
        k = match_known(prop, vio, known)
        if k is not None:
            reported_known.setdefault(k["id"], k)
            continue
        sig = json.dumps([vio["vclass"], vio.get("key", {})], sort_keys=True)
        fresh.setdefault(sig, vio)
    out_lines = []
    replay_paths = []
    mbudget = 40.0 if tier == "quick" else 120.0
    if os.environ.get("VERIF_MINIMISE_S"):
        # (sweeps over many changed trees only need the verdict)
        mbudget = float(os.environ["VERIF_MINIMISE_S"])
    for sig, vio in list(fresh.items())[:5]:
        vio["tier"] = tier
        small = minimise(mod, vio, mbudget / max(1, min(5, len(fresh))),
                         b["case_timeout"])
        if os.environ.get("VERIF_DEBUG"):
            print(f"[debug] minimised one at {time.time()-t0:.1f}s",
                  file=sys.stderr)
        path = write_replay(prop, small, seed)
        replay_paths.append(path)
        out_lines.append(f"VIOLATION property={prop} replay={path}")
        out_lines.append(f"  class={small['vclass']} detail="
                         f"{small['detail'][:400]!r}")
    for k in reported_known.values():
        out_lines.append(f"KNOWN-FINDING: property={prop} {k['what']}")

    unmet = []
    if hasattr(mod, "reach") and not fresh:
        unmet = mod.reach(agg)
        for u in unmet:
            harness_problems.append("REACH: " + u)

    wall = time.time() - t0
    evid = {
        "property_id": prop,
        "tier": tier,
        "seed": seed,
        "level": mod.LEVEL,
        "wall_s": round(wall, 3),
        "violations": len(fresh),
        "assumptions": list(getattr(mod, "ASSUMPTIONS", [])),
        "coverage": {
            "evaluations": agg["evaluations"],
            "distinct_nontrivial": len(agg["digests"]),
            "rule": mod.RULE,
            "samples": agg["samples"] or ["(no sample recorded)"],
            "exhaustive": False,
            "runs_per_hour": int(agg["evaluations"] / max(sim_wall, 1e-6) *
                                 3600),
            "seeds_per_hour": int(agg["evaluations"] / max(sim_wall, 1e-6) *
                                  3600),
            "workers": nw,
            "exploration_rounds": rounds,
            "simulated_time": getattr(mod, "SIM_TIME_NOTE",
                                      "sedpack has no timers; simulated time "
                                      "is nominal - see scheduler_decisions / "
                                      "fs_effects in stats"),
            "distinct_interleavings_or_states": {
                "distinct_event_digests": len(agg["digests"]),
                "distinct_abstract_states": len(agg["states"]),
                "measure": getattr(mod, "STATE_MEASURE",
                                   "SHA-1 of the full event log per run; "
                                   "abstract state = hash(queue lengths, "
                                   "task states) at each decision"),
            },
            "faults_fired": agg["faults"],
            "probes": agg["probes"],
            "stats": agg["stats"],
            "known_findings_seen": sorted(reported_known),
            "real_vs_stub": getattr(mod, "REAL_STUB", {}),
            "harness_problems": harness_problems,
            "unmet_reach": unmet,
        },
    }
    os.makedirs(EVIDENCE, exist_ok=True)
    with open(os.path.join(EVIDENCE, f"{prop}.json"), "w",
              encoding="utf-8") as f:
        json.dump(evid, f, indent=1, sort_keys=True, default=str)

    for line in out_lines:
        print(line)
    print(f"{prop} {tier}: {agg['evaluations']} runs, "
          f"{len(agg['digests'])} distinct non-trivial, "
          f"{len(fresh)} new violation class(es), "
          f"{len(reported_known)} known finding(s), {wall:.1f}s")
    if fresh:
        return 1
    if harness_problems:
        for h in harness_problems:
            print("HARNESS-ERROR: " + h, file=sys.stderr)
        return 2
    return 0


def cmd_replay(path: str) -> int:
    limit_memory()
    with open(path, encoding="utf-8") as f:
        rep = json.load(f)
    prop = rep["property"]
    mod = load_prop(prop)
    if hasattr(mod, "setup"):
        mod.setup("quick", build=True)
    timeout = mod.budget("thorough")["case_timeout"]
    pre = rep.get("preceded_by") or {}
    for i in pre.get("indices", ()):
        run_one(mod, case_for(mod, rep["verif_seed"], pre.get("tier", "quick"),
                              i), timeout)
    res = run_one(mod, rep["case"], timeout)
    for _ in range(2):
        # components the simulator does not control (native threads, tf.data)
        # may need more than one attempt
        if not res.get("ok", True) or res.get("harness_error"):
            break
        res = run_one(mod, rep["case"], timeout)
    if (rep["violation_class"] == "hang_or_blowup_observed_by_watchdog" and
            str(res.get("harness_error", "")).startswith("case wall timeout")):
        print(f"VIOLATION property={prop} replay={path}")
        print(f"  class={rep['violation_class']} digest_identical=True "
              f"detail='no result again within the case deadline'")
        return 1
    if res.get("harness_error"):
        print("HARNESS-ERROR: " + res["harness_error"], file=sys.stderr)
        return 2
    if not res.get("ok", True) and res.get("vclass") == rep["violation_class"]:
        same = res.get("digest") == rep.get("event_digest")
        print(f"VIOLATION property={prop} replay={path}")
        print(f"  class={res['vclass']} digest_identical={same} detail="
              f"{res.get('detail', '')[:600]!r}")
        return 1
    print(f"REPLAY-DIVERGED: expected {rep['violation_class']}, got "
          f"ok={res.get('ok')} class={res.get('vclass')}")
    return 2 if not res.get("ok", True) else 0
