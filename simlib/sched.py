"""Deterministic baton scheduler for real OS threads.

Exactly one registered thread ("task") runs at any time; every other one is
parked on its private semaphore.  At each *yield point* the running task asks
the scheduler who runs next; the answer comes from a seeded PRNG (or from a
recorded list of choices when replaying), so one seed is one execution.

Nothing in here reads a real clock or the global `random` module.
"""
from __future__ import annotations

import collections
import hashlib
import os
import sys
import threading as _real_threading
import _thread
import queue as _real_queue
import time as _real_time
import types

NEW, RUNNABLE, RUNNING, BLOCKED, DONE = "new", "runnable", "running", "blocked", "done"


class SimAbort(BaseException):
    """Raised inside parked threads when a run is torn down."""


class SimDeadlock(Exception):
    """No task can make progress while some are unfinished."""


class SimStepLimit(Exception):
    """The per-run decision budget is exhausted (livelock bound)."""


class Task:
    __slots__ = ("tid", "name", "sem", "state", "pred", "reason", "thread",
                 "exc", "wake_exc", "timed", "timed_out", "prio", "steps",
                 "local")

    def __init__(self, tid: int, name: str) -> None:
        self.tid = tid
        self.name = name
        # binary semaphore: a raw lock that is held while the task is parked
        self.sem = _thread.allocate_lock()
        self.sem.acquire()
        self.state = NEW
        self.pred = None
        self.reason = ""
        self.thread = None
        self.exc = None  # uncaught exception that ended the task
        self.wake_exc = None
        self.timed = False
        self.timed_out = False
        self.prio = 0.0
        self.steps = 0
        self.local = None  # per-task "process-local" state (SimPool)


_CURRENT: "Sched | None" = None


def current() -> "Sched | None":
    s = _CURRENT
    if s is not None and s.active:
        return s
    return None


POLICIES = ("random", "pct", "starve", "run_to_block", "round_robin")


class Sched:
    """One instance per simulated run."""

    def __init__(self, rng, policy: str = "random", policy_param: int = 0,
                 choices=None, max_steps: int = 20000,
                 trace_files=(), line_prob: float = 0.0) -> None:
        self.rng = rng
        # separate stream for line-level pre-emption coins, so that replaying
        # recorded choices (which bypasses the policy) sees the same coins
        self.rng_line = __import__("random").Random(rng.getrandbits(64))
        self.policy = policy
        self.policy_param = policy_param
        self.tasks: list[Task] = []
        self.steps = 0
        self.max_steps = max_steps
        self.choices_in = list(choices) if choices is not None else None
        self.choices_pos = 0
        self.choices_out: list[int] = []
        self.replay_diverged = False
        self.aborting = False
        self.active = False
        self.h = hashlib.sha1()
        self.events = 0
        self.multi_decisions = 0  # decisions with >1 candidates
        self.abstract_states: set[int] = set()
        self.state_fn = None  # optional callable -> hashable abstract state
        self.probes: collections.Counter = collections.Counter()
        self.deadlock_info = None
        self.trace_files = frozenset(trace_files)
        self._trace_cache: dict = {}
        self.line_prob = line_prob
        self.effect_hook = None
        self.switch_hook = None  # callable(from_task, to_task)
        self.no_yield = 0  # >0: yield points are ignored (critical section)
        self.vtime = 0.0
        # PCT change points (decision numbers at which the leader is demoted)
        self._pct_points = set()
        if policy == "pct":
            d = max(1, policy_param)
            self._pct_points = {rng.randrange(1, 400) for _ in range(d)}
        self.main = self._new_task("main")
        self.main.state = RUNNING
        self.main.thread = _real_threading.current_thread()
        self.cur = self.main

    # ---------------------------------------------------------------- admin
    def _new_task(self, name: str) -> Task:
        t = Task(len(self.tasks), name)
        t.prio = self.rng.random()
        self.tasks.append(t)
        return t

    def __enter__(self) -> "Sched":
        global _CURRENT
        assert _CURRENT is None or not _CURRENT.active, "nested sims"
        _CURRENT = self
        self.active = True
        self._patched = patch_sedpack_globals()
        if self.trace_files and self.line_prob > 0:
            sys.settrace(self._tracer)
        return self

    def __exit__(self, *exc) -> bool:
        global _CURRENT
        sys.settrace(None)
        self.shutdown()
        self.active = False
        _CURRENT = None
        for mod, name, val in getattr(self, "_patched", ()):
            setattr(mod, name, val)
        self._patched = []
        return False

    def shutdown(self) -> None:
        """Release every parked thread with the abort flag and join it."""
        self.aborting = True
        for t in self.tasks:
            if t is not self.main and t.state != DONE:
                t.sem.release()
        for t in self.tasks:
            th = t.thread
            if th is not None and th is not _real_threading.current_thread():
                _real_threading.Thread.join(th, 5.0)

    def leaked_threads(self) -> int:
        return sum(1 for t in self.tasks
                   if t.thread is not None and t is not self.main and
                   _real_threading.Thread.is_alive(t.thread))

    def log(self, *event) -> None:
        """Append to the event log digest (never touches PRNG / clocks)."""
        self.events += 1
        self.h.update(repr(event).encode())

    def digest(self) -> str:
        return self.h.hexdigest()

    # ------------------------------------------------------------ internals
    def _me(self) -> Task:
        cur = self.cur
        # The running thread is by construction the baton holder.
        return cur

    def _candidates(self) -> list[Task]:
        out = []
        for t in self.tasks:
            st = t.state
            if st == RUNNABLE:
                out.append(t)
            elif st == BLOCKED:
                if t.pred() or t.timed:
                    out.append(t)
        return out

    def _policy_pick(self, cands: list[Task], me: Task) -> int:
        rng = self.rng
        pol = self.policy
        n = len(cands)
        if pol == "random":
            return rng.randrange(n)
        if pol == "pct":
            if self.multi_decisions in self._pct_points:
                leader = max(cands, key=lambda t: t.prio)
                leader.prio = -rng.random() - self.multi_decisions
            best = max(range(n), key=lambda i: cands[i].prio)
            return best
        if pol == "starve":
            victim = self.policy_param % max(1, len(self.tasks))
            others = [i for i in range(n) if cands[i].tid != victim]
            if others:
                return others[rng.randrange(len(others))]
            return 0
        if pol == "run_to_block":
            for i in range(n):
                if cands[i] is me:
                    if rng.random() < 0.9:
                        return i
                    break
            return rng.randrange(n)
        if pol == "round_robin":
            for i in range(n):
                if cands[i].tid > me.tid:
                    return i
            return 0
        return rng.randrange(n)

    def _pick(self, cands: list[Task], me: Task) -> Task:
        self.steps += 1
        me.steps += 1
        if self.state_fn is not None:
            try:
                self.abstract_states.add(
                    hash((self.state_fn(),
                          tuple(t.state for t in self.tasks))))
            except Exception:  # pylint: disable=broad-except
                pass
        if len(cands) == 1:
            return cands[0]
        self.multi_decisions += 1
        if self.choices_in is not None:
            if self.choices_pos < len(self.choices_in):
                idx = self.choices_in[self.choices_pos]
                if idx >= len(cands):
                    self.replay_diverged = True
                    idx = idx % len(cands)
            else:
                idx = 0
            self.choices_pos += 1
        else:
            idx = self._policy_pick(cands, me)
        self.choices_out.append(idx)
        return cands[idx]

    def _fail_to_main(self, exc: BaseException, me: Task) -> None:
        """Deliver `exc` to the driver task (deadlock / budget)."""
        self.deadlock_info = self.describe()
        if me is self.main:
            me.state = RUNNING
            raise exc
        self.main.wake_exc = exc
        self._transfer(self.main, me, park=me.state != DONE)

    def _transfer(self, nxt: Task, me: Task, park: bool = True) -> None:
        if nxt is me:
            if me.state == BLOCKED and me.timed and not me.pred():
                me.timed_out = True  # the scheduler let its own wait expire
            me.state = RUNNING
            return
        was_timed_wait = nxt.state == BLOCKED and nxt.timed and not nxt.pred() \
            and nxt.wake_exc is None
        if was_timed_wait:
            nxt.timed_out = True
        nxt.state = RUNNING
        if self.switch_hook is not None:
            self.switch_hook(me, nxt)
        self.cur = nxt
        self.h.update(b"%d>%d;" % (me.tid, nxt.tid))
        nxt.sem.release()
        if park:
            me.sem.acquire()
            self._on_wake(me)

    def _on_wake(self, me: Task) -> None:
        if self.aborting:
            raise SimAbort()
        exc = me.wake_exc
        if exc is not None:
            me.wake_exc = None
            me.state = RUNNING
            raise exc

    def describe(self) -> str:
        return "; ".join(f"{t.tid}:{t.name}:{t.state}:{t.reason}"
                         for t in self.tasks)

    # ----------------------------------------------------------- public API
    def yield_(self, reason: str = "") -> None:
        """A pre-emption point: anybody runnable may run next."""
        if self.aborting:
            raise SimAbort()
        me = self.cur
        if self.no_yield or _real_threading.current_thread() is not me.thread:
            # A thread the simulator does not own / a critical section of the
            # harness itself (e.g. a finaliser running inside Thread.start):
            # not a yield point.
            return
        me.state = RUNNABLE
        me.reason = reason
        if self.steps >= self.max_steps:
            self._fail_to_main(SimStepLimit(f"step budget {self.max_steps}"),
                               me)
            return
        cands = self._candidates()
        nxt = self._pick(cands, me)
        self._transfer(nxt, me)

    def block(self, pred, reason: str = "", timed: bool = False) -> bool:
        """Block the calling task until pred() holds.

        Returns True when pred holds, False when a *timed* wait was chosen to
        time out by the scheduler.
        """
        if self.aborting:
            raise SimAbort()
        me = self.cur
        if _real_threading.current_thread() is not me.thread:
            raise RuntimeError("block() from a thread the simulator does not "
                               "own")
        if pred():
            return True
        me.state = BLOCKED
        me.pred = pred
        me.reason = reason
        me.timed = timed
        me.timed_out = False
        if self.steps >= self.max_steps:
            self._fail_to_main(SimStepLimit(f"step budget {self.max_steps}"),
                               me)
        cands = self._candidates()
        if not cands:
            self.probes["deadlock_detected"] += 1
            self._fail_to_main(SimDeadlock(self.describe()), me)
            # (only reached by non-main tasks after being woken again)
        else:
            nxt = self._pick(cands, me)
            self._transfer(nxt, me)
        me.timed = False
        if me.timed_out:
            me.timed_out = False
            self.vtime += 1.0
            return False
        return True

    def sleep(self, seconds: float) -> None:
        self.vtime += max(0.0, float(seconds or 0.0))
        self.yield_("sleep")

    def drain(self, reason: str = "drain") -> None:
        """Driver: let everybody else run until all other tasks are done."""
        me = self.cur
        assert me is self.main
        self.block(lambda: all(t.state == DONE for t in self.tasks
                               if t is not me), reason)

    def others_done(self) -> bool:
        return all(t.state == DONE for t in self.tasks if t is not self.main)

    # ------------------------------------------------------ thread plumbing
    def spawn(self, fn, name: str = "task") -> Task:
        """Run fn() as a new simulated task on a real thread."""
        task = self._new_task(name)

        def entry() -> None:
            try:
                self._thread_entry(task)
                fn()
            except SimAbort:
                pass
            except BaseException as e:  # pylint: disable=broad-except
                task.exc = e
            finally:
                self._thread_exit(task)

        th = _real_threading.Thread(target=entry, daemon=True,
                                    name=f"sim-{task.tid}")
        task.thread = th
        task.state = RUNNABLE
        self.no_yield += 1
        try:
            th.start()
        finally:
            self.no_yield -= 1
        return task

    def register_thread(self, th, name: str) -> Task:
        task = self._new_task(name)
        task.thread = th
        task.state = RUNNABLE
        return task

    def _thread_entry(self, task: Task) -> None:
        task.sem.acquire()
        if self.trace_files and self.line_prob > 0 and not self.aborting:
            sys.settrace(self._tracer)
        if self.aborting:
            raise SimAbort()

    def _thread_exit(self, task: Task) -> None:
        sys.settrace(None)
        task.state = DONE
        if self.aborting:
            return
        self.h.update(b"x%d;" % task.tid)
        cands = self._candidates()
        if not cands:
            if self.main.state != DONE:
                self.deadlock_info = self.describe()
                self.main.wake_exc = SimDeadlock(self.describe())
                self._transfer(self.main, task, park=False)
            return
        try:
            nxt = self._pick(cands, task)
        except SimStepLimit as e:  # pragma: no cover
            self.main.wake_exc = e
            nxt = self.main
        self._transfer(nxt, task, park=False)

    # --------------------------------------------------------- line tracing
    def _tracer(self, frame, event, arg):
        # entries of trace_files ending in a path separator are directory
        # prefixes (every source file below them is pre-emptible)
        fn = frame.f_code.co_filename
        if fn in self.trace_files:
            return self._local_tracer
        hit = self._trace_cache.get(fn)
        if hit is None:
            hit = any(p.endswith(os.sep) and fn.startswith(p)
                      for p in self.trace_files)
            self._trace_cache[fn] = hit
        return self._local_tracer if hit else None

    def _local_tracer(self, frame, event, arg):
        if event == "line" and not self.aborting:
            if _real_threading.current_thread() is self.cur.thread:
                if self.rng_line.random() < self.line_prob:
                    self.probes["line_preemptions"] += 1
                    self.yield_("line")
        return self._local_tracer


# ===================================================================== shims
class Empty(_real_queue.Empty):
    pass


Empty = _real_queue.Empty  # same class so `except queue.Empty` works anywhere
Full = _real_queue.Full


class SimQueue:
    """queue.Queue under the scheduler (FIFO)."""
    _lifo = False

    def __init__(self, maxsize: int = 0) -> None:
        self.maxsize = maxsize
        self._q: collections.deque = collections.deque()
        self._unfinished = 0

    def __class_getitem__(cls, item):
        return cls

    # -- helpers
    def _pop(self):
        if self._lifo:
            return self._q.pop()
        return self._q.popleft()

    def qsize(self) -> int:
        return len(self._q)

    def empty(self) -> bool:
        return not self._q

    def full(self) -> bool:
        return 0 < self.maxsize <= len(self._q)

    def put(self, item, block: bool = True, timeout=None) -> None:
        s = current()
        if s is not None:
            s.yield_("q.put")
            if self.full():
                if not block:
                    raise Full
                ok = s.block(lambda: not self.full(), "q.put.full",
                             timed=timeout is not None)
                if not ok:
                    raise Full
            s.log("put", s.cur.tid, id_of(item))
        self._q.append(item)
        self._unfinished += 1
        if s is not None:
            # the caller may be pre-empted right after the item is visible
            s.yield_("q.put.done")

    def put_nowait(self, item) -> None:
        self.put(item, block=False)

    def get(self, block: bool = True, timeout=None):
        s = current()
        if s is not None:
            s.yield_("q.get")
            if not self._q:
                if not block:
                    raise Empty
                ok = s.block(lambda: bool(self._q), "q.get.empty",
                             timed=timeout is not None)
                if not ok:
                    raise Empty
            item = self._pop()
            s.log("get", s.cur.tid, id_of(item))
            return item
        if not self._q:
            raise Empty
        return self._pop()

    def get_nowait(self):
        return self.get(block=False)

    def task_done(self) -> None:
        self._unfinished -= 1

    def join(self) -> None:
        s = current()
        if s is not None:
            s.block(lambda: self._unfinished <= 0, "q.join")


class SimLifoQueue(SimQueue):
    _lifo = True


def id_of(item) -> str:
    """Stable description of a queue item for the event log."""
    if isinstance(item, str):
        # file paths contain the per-process scratch directory: keep the
        # (seed-derived) file name only
        return repr(item.rsplit("/", 1)[-1])[:60]
    if isinstance(item, (int, bytes, float, type(None))):
        return repr(item)[:60]
    if isinstance(item, tuple):
        return "(" + ",".join(id_of(x) for x in item[:6]) + ")"
    return type(item).__name__


class SimLock:

    def __init__(self) -> None:
        self._owner = None
        self._count = 0
        self._reentrant = False

    def acquire(self, blocking: bool = True, timeout: float = -1) -> bool:
        s = current()
        if s is None:
            self._owner = "x"
            self._count += 1
            return True
        s.yield_("lock.acquire")
        me = s.cur
        if self._reentrant and self._owner is me:
            self._count += 1
            return True
        if self._owner is not None:
            if not blocking:
                return False
            ok = s.block(lambda: self._owner is None, "lock.wait",
                         timed=timeout is not None and timeout >= 0)
            if not ok:
                return False
        self._owner = me
        self._count = 1
        return True

    def release(self) -> None:
        self._count -= 1
        if self._count <= 0:
            self._owner = None
            self._count = 0
        s = current()
        if s is not None:
            s.yield_("lock.release")

    def locked(self) -> bool:
        return self._owner is not None

    def __enter__(self):
        self.acquire()
        return self

    def __exit__(self, *a):
        self.release()
        return False


class SimRLock(SimLock):

    def __init__(self) -> None:
        super().__init__()
        self._reentrant = True


class SimEvent:

    def __init__(self) -> None:
        self._flag = False

    def is_set(self) -> bool:
        return self._flag

    def set(self) -> None:
        self._flag = True
        s = current()
        if s is not None:
            s.yield_("event.set")

    def clear(self) -> None:
        self._flag = False

    def wait(self, timeout=None) -> bool:
        s = current()
        if s is None:
            return self._flag
        s.yield_("event.wait")
        if not self._flag:
            s.block(lambda: self._flag, "event.wait", timed=timeout is not None)
        return self._flag


class SimSemaphore:

    def __init__(self, value: int = 1) -> None:
        self._value = value

    def acquire(self, blocking: bool = True, timeout=None) -> bool:
        s = current()
        if s is None:
            self._value -= 1
            return True
        s.yield_("sem.acquire")
        if self._value <= 0:
            if not blocking:
                return False
            ok = s.block(lambda: self._value > 0, "sem.wait",
                         timed=timeout is not None)
            if not ok:
                return False
        self._value -= 1
        return True

    def release(self, n: int = 1) -> None:
        self._value += n
        s = current()
        if s is not None:
            s.yield_("sem.release")

    __enter__ = acquire

    def __exit__(self, *a):
        self.release()
        return False


class SimCondition:

    def __init__(self, lock=None) -> None:
        self._lock = lock or SimRLock()
        self._gen = 0
        self.acquire = self._lock.acquire
        self.release = self._lock.release

    def __enter__(self):
        self._lock.acquire()
        return self

    def __exit__(self, *a):
        self._lock.release()
        return False

    def wait(self, timeout=None) -> bool:
        s = current()
        if s is None:
            return True
        gen = self._gen
        saved = self._lock._count
        self._lock._count = 0
        self._lock._owner = None
        ok = s.block(lambda: self._gen != gen, "cond.wait",
                     timed=timeout is not None)
        s.block(lambda: self._lock._owner is None, "cond.relock")
        self._lock._owner = s.cur
        self._lock._count = saved
        return ok

    def wait_for(self, predicate, timeout=None):
        while not predicate():
            if not self.wait(timeout) and timeout is not None:
                return predicate()
        return True

    def notify(self, n: int = 1) -> None:
        self._gen += 1

    def notify_all(self) -> None:
        self._gen += 1


class SimThread(_real_threading.Thread):
    """threading.Thread whose run() executes as a simulated task."""

    def __init__(self, *args, **kwargs) -> None:
        super().__init__(*args, **kwargs)
        self._sim_task = None
        self._sim_sched = None

    def start(self) -> None:
        s = current()
        if s is None:
            super().start()
            return
        task = s.register_thread(self, f"{type(self).__name__}")
        self._sim_task = task
        self._sim_sched = s
        orig_run = self.run

        def run_wrapper() -> None:
            try:
                s._thread_entry(task)  # pylint: disable=protected-access
                orig_run()
            except SimAbort:
                pass
            except BaseException as e:  # pylint: disable=broad-except
                task.exc = e
                s.probes["thread_died_with_exception"] += 1
            finally:
                s._thread_exit(task)  # pylint: disable=protected-access

        self.run = run_wrapper  # type: ignore[method-assign]
        self.daemon = True
        s.no_yield += 1
        try:
            super().start()
        finally:
            s.no_yield -= 1
        s.log("start", task.tid)
        s.yield_("thread.start")

    def join(self, timeout=None) -> None:
        s = self._sim_sched
        task = self._sim_task
        if s is None or task is None or not s.active:
            super().join(timeout)
            return
        s.yield_("thread.join")
        s.block(lambda: task.state == DONE, "thread.join",
                timed=timeout is not None)

    def is_alive(self) -> bool:
        task = self._sim_task
        if task is None:
            return super().is_alive()
        return task.state != DONE


class _SimTime:
    """Stands in for the `time` module inside simulated code."""

    def sleep(self, seconds: float) -> None:
        s = current()
        if s is None:
            return
        s.sleep(seconds)

    def time(self) -> float:
        s = current()
        return 1.7e9 + (s.vtime if s is not None else 0.0)

    monotonic = time
    perf_counter = time

    def __getattr__(self, name):
        return getattr(_real_time, name)


def make_queue_module() -> types.ModuleType:
    m = types.ModuleType("queue")
    m.Queue = SimQueue
    m.SimpleQueue = SimQueue
    m.LifoQueue = SimLifoQueue
    m.PriorityQueue = SimQueue
    m.Empty = Empty
    m.Full = Full
    return m


def make_threading_module() -> types.ModuleType:
    m = types.ModuleType("threading")
    for name in dir(_real_threading):
        if not name.startswith("__"):
            setattr(m, name, getattr(_real_threading, name))
    m.Thread = SimThread
    m.Lock = SimLock
    m.RLock = SimRLock
    m.Event = SimEvent
    m.Condition = SimCondition
    m.Semaphore = SimSemaphore
    m.BoundedSemaphore = SimSemaphore
    return m


def make_time_module():
    return _SimTime()


_SHIM_CACHE: dict = {}


def _shim_map() -> dict:
    """id(real object) -> simulated stand-in, for every thread-related name a
    sedpack module may hold in its globals."""
    if _SHIM_CACHE:
        return _SHIM_CACHE
    import concurrent.futures as cf
    from simlib import simexec
    th, qu, fut = (make_threading_module(), make_queue_module(),
                   simexec.make_futures_module())
    pairs = [(_real_threading, th), (_real_queue, qu), (cf, fut)]
    for name in ("Thread", "Lock", "RLock", "Event", "Condition", "Semaphore",
                 "BoundedSemaphore"):
        pairs.append((getattr(_real_threading, name), getattr(th, name)))
    for name in ("Queue", "SimpleQueue", "LifoQueue", "PriorityQueue"):
        pairs.append((getattr(_real_queue, name), getattr(qu, name)))
    for name in ("ThreadPoolExecutor", "as_completed", "wait"):
        pairs.append((getattr(cf, name), getattr(fut, name)))
    for real, sim in pairs:
        _SHIM_CACHE[id(real)] = (real, sim)
    return _SHIM_CACHE


def patch_sedpack_globals() -> list:
    """While a simulation is active every loaded sedpack module sees the
    simulated `threading`, `queue` and `concurrent.futures` (and the names
    imported from them) in its globals, so threads, locks, events and pools
    that *any* of its functions creates - in the pinned form or after somebody
    added one - are tasks and yield points of the scheduler.  (Names are
    resolved at call time; class bases were fixed at import, which is why
    lazy_pool.py and dataset_iteration.py are additionally re-executed.)
    Returns the list of (module, name, original) to restore."""
    shim = _shim_map()
    undo = []
    for modname, mod in list(sys.modules.items()):
        if mod is None or not (modname == "sedpack" or
                               modname.startswith("sedpack.")):
            continue
        try:
            items = list(vars(mod).items())
        except TypeError:
            continue
        for name, val in items:
            hit = shim.get(id(val))
            if hit is not None and hit[0] is val:
                undo.append((mod, name, val))
                setattr(mod, name, hit[1])
    return undo


def load_module_under_shims(path: str, name: str,
                            extra: dict | None = None) -> types.ModuleType:
    """Execute a source file with `queue`, `threading` and `time` resolved to
    the simulated versions, so that whatever the file imports from them - in
    the pinned form or after somebody restructured it - is under the
    scheduler.  The real modules are restored in sys.modules afterwards."""
    import importlib.util
    shims = {
        "queue": make_queue_module(),
        "threading": make_threading_module(),
        "time": make_time_module(),
    }
    shims.update(extra or {})
    saved = {k: sys.modules.get(k) for k in shims}
    try:
        for k, v in shims.items():
            sys.modules[k] = v  # type: ignore[assignment]
        spec = importlib.util.spec_from_file_location(name, path)
        mod = importlib.util.module_from_spec(spec)
        spec.loader.exec_module(mod)
    finally:
        for k, v in saved.items():
            if v is None:
                sys.modules.pop(k, None)
            else:
                sys.modules[k] = v
    return mod
