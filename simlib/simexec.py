"""Simulated stand-ins for multiprocessing.Pool and ThreadPoolExecutor.

Both are *stubs* whose semantics are copied from CPython's documentation;
completion order is the scheduler's choice.
"""
from __future__ import annotations

import collections
import io
import pickle
import random
from multiprocessing.reduction import ForkingPickler

from simlib import sched as S


def _dumps(obj) -> bytes:
    buf = io.BytesIO()
    ForkingPickler(buf, pickle.HIGHEST_PROTOCOL).dump(obj)
    return buf.getvalue()


class SimPool:
    """multiprocessing.Pool(processes) with imap/map/imap_unordered.

    Every task crosses a pickle boundary in both directions (as with real
    worker processes) and runs as a baton thread.  Each "process" has its own
    `random` state (swapped in on every context switch), freshly seeded as
    CPython does after fork."""

    monitor = None  # optional callable(event, worker_index)

    def __init__(self, processes=None, *a, **kw) -> None:
        self.processes = processes or 4
        self._tasks: list = []
        self.closed = False

    def __enter__(self):
        return self

    def __exit__(self, *exc):
        self.terminate()
        return False

    def terminate(self) -> None:
        self.closed = True

    close = terminate

    def join(self) -> None:
        s = S.current()
        if s is not None:
            s.block(lambda: all(t.state == S.DONE for t in self._tasks),
                    "pool.join")

    def _run_all(self, func, iterable):
        s = S.current()
        items = list(iterable)
        n = len(items)
        results: list = [None] * n
        done = [False] * n
        errors: list = [None] * n
        if s is None:
            for i, it in enumerate(items):
                f, arg = pickle.loads(_dumps((func, it)))
                results[i] = pickle.loads(_dumps(f(arg)))
                done[i] = True
            return results, done, errors
        # CPython (>= 3.7) re-seeds the `random` module in every forked child
        # (os.register_at_fork), so worker processes start from *distinct*
        # generator states; numpy's global generator would be copied, sedpack
        # does not use it.
        seeder = random.Random(random.getrandbits(64))

        def fresh_state():
            return random.Random(seeder.getrandbits(64)).getstate()

        running = [0]
        pending = collections.deque(range(n))
        parent = {"state": None}

        def switch(me, nxt):
            # process-local `random` state: swap on every context switch
            a = me.local is not None and "rand" in me.local
            b = nxt.local is not None and "rand" in nxt.local
            if a:
                me.local["rand"] = random.getstate()
            elif b:
                parent["state"] = random.getstate()
            if b:
                random.setstate(nxt.local["rand"])
            elif a and parent["state"] is not None:
                random.setstate(parent["state"])

        s.switch_hook = switch

        def make(i):
            payload = _dumps((func, items[i]))

            def work():
                # a free worker process picks up the task
                s.block(lambda: running[0] < self.processes and
                        pending and pending[0] == i, "pool.slot")
                pending.popleft()
                running[0] += 1
                parent["state"] = random.getstate()
                mine = fresh_state()
                s.cur.local = {"rand": mine}
                random.setstate(mine)
                try:
                    f, arg = pickle.loads(payload)
                    s.log("pool.start", i)
                    out = f(arg)
                    results[i] = pickle.loads(_dumps(out))
                except S.SimAbort:
                    raise
                except BaseException as e:  # pylint: disable=broad-except
                    errors[i] = e
                finally:
                    s.cur.local = None
                    if parent["state"] is not None:
                        random.setstate(parent["state"])
                    running[0] -= 1
                    done[i] = True
                    if not s.aborting:
                        s.log("pool.done", i)

            return work

        for i in range(n):
            self._tasks.append(s.spawn(make(i), name=f"poolworker{i}"))
        return results, done, errors

    def imap(self, func, iterable, chunksize=1):
        results, done, errors = self._run_all(func, iterable)
        s = S.current()

        def gen():
            for i in range(len(results)):
                if s is not None:
                    s.block(lambda i=i: done[i], f"pool.result{i}")
                if errors[i] is not None:
                    raise errors[i]
                yield results[i]

        return gen()

    def map(self, func, iterable, chunksize=None):
        return list(self.imap(func, iterable))

    def imap_unordered(self, func, iterable, chunksize=1):
        results, done, errors = self._run_all(func, iterable)
        s = S.current()

        def gen():
            yielded = set()
            while len(yielded) < len(results):
                if s is not None:
                    s.block(lambda: any(done[i] and i not in yielded
                                        for i in range(len(results))),
                            "pool.any")
                for i in range(len(results)):
                    if done[i] and i not in yielded:
                        yielded.add(i)
                        if errors[i] is not None:
                            raise errors[i]
                        yield results[i]
                        break

        return gen()


class SimFuture:

    def __class_getitem__(cls, item):
        return cls

    def __init__(self) -> None:
        self._done = False
        self._result = None
        self._exc = None
        self._cancelled = False
        self._started = False

    def done(self) -> bool:
        return self._done or self._cancelled

    def running(self) -> bool:
        return self._started and not self._done

    def add_done_callback(self, fn) -> None:
        """As in CPython: called in the thread that completes the future, or
        immediately when it is already done."""
        if self.done():
            fn(self)
        else:
            self.__dict__.setdefault("_callbacks", []).append(fn)

    def _finish(self) -> None:
        self._done = True
        for fn in self.__dict__.pop("_callbacks", []):
            try:
                fn(self)
            except S.SimAbort:
                raise
            except Exception:  # pylint: disable=broad-except
                pass  # (CPython logs and ignores callback exceptions)

    def cancel(self) -> bool:
        if self._started:
            return False
        self._cancelled = True
        for fn in self.__dict__.pop("_callbacks", []):
            fn(self)
        return True

    def cancelled(self) -> bool:
        return self._cancelled

    def result(self, timeout=None):
        s = S.current()
        if s is not None and not self.done():
            s.block(self.done, "future.result")
        if self._cancelled:
            import concurrent.futures
            raise concurrent.futures.CancelledError()
        if self._exc is not None:
            raise self._exc
        return self._result

    def exception(self, timeout=None):
        s = S.current()
        if s is not None and not self.done():
            s.block(self.done, "future.exception")
        return self._exc


class SimExecutor:
    __class_getitem__ = classmethod(lambda cls, item: cls)
    """concurrent.futures.ThreadPoolExecutor: at most max_workers tasks run at
    once, FIFO start order, `map` submits eagerly and yields in submission
    order, leaving the context waits for running tasks."""

    stats = collections.Counter()

    def __init__(self, max_workers=None, *a, **kw) -> None:
        if max_workers is not None and max_workers <= 0:
            raise ValueError("max_workers must be greater than 0")
        self.max_workers = max_workers or 4
        self._queue: collections.deque = collections.deque()
        self._running = 0
        self._shutdown = False
        self._tasks: list = []

    def __enter__(self):
        return self

    def __exit__(self, *exc):
        self.shutdown(wait=True)
        return False

    def submit(self, fn, /, *args, **kwargs) -> SimFuture:
        if self._shutdown:
            raise RuntimeError("cannot schedule new futures after shutdown")
        fut = SimFuture()
        s = S.current()
        if s is None:
            try:
                fut._result = fn(*args, **kwargs)
            except BaseException as e:  # pylint: disable=broad-except
                fut._exc = e
            fut._done = True
            return fut
        self._queue.append(fut)
        SimExecutor.stats["submitted"] += 1

        def work():
            s.block(lambda: fut._cancelled or
                    (self._running < self.max_workers and
                     self._queue and self._queue[0] is fut), "exec.slot")
            if fut._cancelled:
                if fut in self._queue:
                    self._queue.remove(fut)
                return
            self._queue.popleft()
            self._running += 1
            if self._running > 1:
                SimExecutor.stats["overlapping_tasks"] += 1
            fut._started = True
            try:
                s.yield_("exec.start")
                fut._result = fn(*args, **kwargs)
            except S.SimAbort:
                raise
            except BaseException as e:  # pylint: disable=broad-except
                fut._exc = e
            finally:
                self._running -= 1
                fut._finish()

        self._tasks.append(s.spawn(work, name="execworker"))
        return fut

    def map(self, fn, *iterables, timeout=None, chunksize=1):
        futs = [self.submit(fn, *args) for args in zip(*iterables)]

        def gen():
            try:
                futs.reverse()
                while futs:
                    yield futs.pop().result()
            finally:
                for f in futs:
                    f.cancel()

        return gen()

    def shutdown(self, wait=True, *, cancel_futures=False) -> None:
        self._shutdown = True
        s = S.current()
        if cancel_futures:
            for f in list(self._queue):
                f.cancel()
        if wait and s is not None:
            s.block(lambda: all(t.state == S.DONE for t in self._tasks),
                    "exec.shutdown")


def sim_as_completed(fs, timeout=None):
    """concurrent.futures.as_completed under the scheduler."""
    pending = list(fs)
    s = S.current()
    while pending:
        if s is not None and not any(f.done() for f in pending):
            s.block(lambda: any(f.done() for f in pending), "as_completed",
                    timed=timeout is not None)
        for f in list(pending):
            if f.done():
                pending.remove(f)
                yield f
                break
        else:
            import concurrent.futures
            raise concurrent.futures.TimeoutError()


def sim_wait(fs, timeout=None, return_when="ALL_COMPLETED"):
    import collections as _c
    fs = list(fs)
    s = S.current()

    def satisfied():
        if return_when == "FIRST_COMPLETED":
            return any(f.done() for f in fs)
        if return_when == "FIRST_EXCEPTION":
            return any(f.done() and f._exc is not None for f in fs) or all(
                f.done() for f in fs)
        return all(f.done() for f in fs)

    if s is not None and not satisfied():
        s.block(satisfied, "futures.wait", timed=timeout is not None)
    res = _c.namedtuple("DoneAndNotDoneFutures", "done not_done")
    return res({f for f in fs if f.done()}, {f for f in fs if not f.done()})


def make_futures_module():
    """Stands in for `concurrent.futures` inside re-executed sedpack code."""
    import concurrent.futures as real
    import types
    m = types.ModuleType("concurrent.futures")
    for name in dir(real):
        if not name.startswith("__"):
            setattr(m, name, getattr(real, name))
    m.ThreadPoolExecutor = SimExecutor
    m.Future = SimFuture
    m.as_completed = sim_as_completed
    m.wait = sim_wait
    return m
