"""Virtual-time asyncio event loop.

`time()` is virtual; when nothing is ready the clock jumps to the next timer;
`run_in_executor` runs the callable inline at a seeded virtual delay, so the
completion order of concurrent off-loaded file operations (aiofiles) is a
seeded choice.  call_soon order stays FIFO (documented asyncio behaviour).
"""
from __future__ import annotations

import asyncio
import heapq


class SimLoopDeadlock(Exception):
    pass


class SimLoop(asyncio.BaseEventLoop):

    def __init__(self, rng, latencies=(0.0, 0.001, 0.002, 0.005, 0.02)):
        super().__init__()
        self._vtime = 0.0
        self._rng = rng
        self._latencies = latencies
        self.offloads = 0
        self.iterations = 0
        self.max_iterations = 2_000_000
        self.trace = []  # (vtime, label) appended by users

    def time(self) -> float:
        return self._vtime

    # BaseEventLoop hooks that would touch a selector
    def _process_events(self, event_list) -> None:  # pragma: no cover
        pass

    def _write_to_self(self) -> None:
        pass

    def _run_once(self) -> None:
        self.iterations += 1
        if self.iterations > self.max_iterations:
            raise SimLoopDeadlock("iteration budget exhausted")
        sched = self._scheduled
        while sched and sched[0]._cancelled:
            h = heapq.heappop(sched)
            h._scheduled = False
        if not self._ready:
            if not sched:
                raise SimLoopDeadlock("nothing ready and nothing scheduled")
            self._vtime = max(self._vtime, sched[0]._when)
        end = self._vtime + 1e-9
        while sched and sched[0]._when <= end:
            h = heapq.heappop(sched)
            h._scheduled = False
            if not h._cancelled:
                self._ready.append(h)
        for _ in range(len(self._ready)):
            h = self._ready.popleft()
            if h._cancelled:
                continue
            h._run()

    def run_in_executor(self, executor, func, *args):
        fut = self.create_future()
        self.offloads += 1
        delay = self._rng.choice(self._latencies)

        def fire() -> None:
            if fut.cancelled():
                return
            try:
                res = func(*args)
            except BaseException as e:  # pylint: disable=broad-except
                fut.set_exception(e)
            else:
                fut.set_result(res)

        self.call_later(delay, fire)
        return fut

    def run(self, coro):
        try:
            return self.run_until_complete(coro)
        finally:
            try:
                self.run_until_complete(self.shutdown_asyncgens())
            except Exception:  # pylint: disable=broad-except
                pass
            self.close()
