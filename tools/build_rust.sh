#!/bin/bash
# Build the sedpack Rust extension from ${VERIF_REPO:-/repo}/rust (current working tree)
# into /verif/.build; never touches /repo/src/sedpack/_sedpack_rs*.so or /repo/rust/target.
set -e
REPO="${VERIF_REPO:-/repo}"
HERE="$(cd "$(dirname "$0")/.." && pwd)"
export CARGO_NET_OFFLINE=true PYO3_PYTHON=/venv/bin/python
export CARGO_TARGET_DIR="$HERE/.build/rust-target"
mkdir -p "$CARGO_TARGET_DIR"
( cd "$REPO/rust" && cargo build --release --offline --features pyo3/extension-module --quiet )
cp "$CARGO_TARGET_DIR/release/libsedpack_rs.so" "$HERE/.build/_sedpack_rs.so.tmp"
mv "$HERE/.build/_sedpack_rs.so.tmp" "$HERE/.build/_sedpack_rs.so"
echo "built $HERE/.build/_sedpack_rs.so"
