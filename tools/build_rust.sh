#!/bin/bash
# Build the sedpack Rust extension from ${VERIF_REPO:-/repo}/rust (current working tree)
# into /verif/.build; never touches /repo/src/sedpack/_sedpack_rs*.so or /repo/rust/target.
set -e
REPO="${VERIF_REPO:-/repo}"
HERE="$(cd "$(dirname "$0")/.." && pwd)"
BUILD="${VERIF_BUILD:-$HERE/.build}"
export CARGO_NET_OFFLINE=true PYO3_PYTHON=/venv/bin/python
export CARGO_TARGET_DIR="$BUILD/rust-target"
mkdir -p "$CARGO_TARGET_DIR"
( cd "$REPO/rust" && cargo build --release --offline --features pyo3/extension-module --quiet 2> "$BUILD/cargo-ext.log" ) || { cat "$BUILD/cargo-ext.log"; exit 1; }
cp "$CARGO_TARGET_DIR/release/libsedpack_rs.so" "$BUILD/_sedpack_rs.so.tmp"
mv "$BUILD/_sedpack_rs.so.tmp" "$BUILD/_sedpack_rs.so"
echo "built $BUILD/_sedpack_rs.so"
