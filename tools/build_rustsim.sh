#!/bin/bash
# Build the parallel_map harness against ${VERIF_REPO:-/repo}/rust (working tree).
set -e
REPO="${VERIF_REPO:-/repo}"
HERE="$(cd "$(dirname "$0")/.." && pwd)"
BUILD="${VERIF_BUILD:-$HERE/.build}"
export CARGO_NET_OFFLINE=true PYO3_PYTHON=/venv/bin/python
export CARGO_TARGET_DIR="$BUILD/rustsim-target"
mkdir -p "$CARGO_TARGET_DIR" "$BUILD/rustsim-src/src"
# work on a copy so that the path dependency can point at $REPO and Cargo.lock stays out of git churn
cp "$HERE/rustsim/src/main.rs" "$BUILD/rustsim-src/src/main.rs"
sed "s#path = \"/repo/rust\"#path = \"$REPO/rust\"#" "$HERE/rustsim/Cargo.toml" > "$BUILD/rustsim-src/Cargo.toml"
cp "$REPO/rust/Cargo.lock" "$BUILD/rustsim-src/Cargo.lock"
( cd "$BUILD/rustsim-src" && cargo build --release --offline --quiet 2> "$BUILD/cargo-sim.log" ) || { cat "$BUILD/cargo-sim.log"; exit 1; }
test -x "$CARGO_TARGET_DIR/release/rustsim"
cp "$CARGO_TARGET_DIR/release/rustsim" "$BUILD/rustsim.tmp" && mv "$BUILD/rustsim.tmp" "$BUILD/rustsim"
echo "built $BUILD/rustsim"
