#!/bin/bash
# Build the parallel_map harness against ${VERIF_REPO:-/repo}/rust (working tree).
set -e
REPO="${VERIF_REPO:-/repo}"
HERE="$(cd "$(dirname "$0")/.." && pwd)"
export CARGO_NET_OFFLINE=true PYO3_PYTHON=/venv/bin/python
export CARGO_TARGET_DIR="$HERE/.build/rustsim-target"
mkdir -p "$CARGO_TARGET_DIR" "$HERE/.build/rustsim-src/src"
# work on a copy so that the path dependency can point at $REPO and Cargo.lock stays out of git churn
cp "$HERE/rustsim/src/main.rs" "$HERE/.build/rustsim-src/src/main.rs"
sed "s#path = \"/repo/rust\"#path = \"$REPO/rust\"#" "$HERE/rustsim/Cargo.toml" > "$HERE/.build/rustsim-src/Cargo.toml"
cp "$REPO/rust/Cargo.lock" "$HERE/.build/rustsim-src/Cargo.lock"
( cd "$HERE/.build/rustsim-src" && cargo build --release --offline --quiet 2>&1 | grep -v -E '^warning|^\s*(\||=|-->|[0-9]+ \|)|^$' || true )
test -x "$CARGO_TARGET_DIR/release/rustsim"
cp "$CARGO_TARGET_DIR/release/rustsim" "$HERE/.build/rustsim.tmp" && mv "$HERE/.build/rustsim.tmp" "$HERE/.build/rustsim"
echo "built $HERE/.build/rustsim"
