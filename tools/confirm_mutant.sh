#!/bin/bash
# usage: confirm_mutant.sh <PROP> <letter>    (source: /tmp/wt-<PROP>/_mut/<letter>/)
# Confirms in a fresh scratch worktree of /repo HEAD: demo passes without the patch, fails with it,
# and the full existing suite passes with it. On success stores /verif/seeded/<PROP>-<letter>/.
PROP=$1; L=$2
PREFIX=${3:-/tmp/wt-}        # worktree prefix of the sub-agent round (/tmp/wt- or /tmp/wt2-)
TAG=${4:-}                   # id infix for later rounds (e.g. r2)
SRC=$PREFIX$PROP/_mut/$L
WT=/tmp/confirm-$PROP-$TAG$L
LOG=/tmp/confirm-$PROP-$TAG$L.log
exec >"$LOG" 2>&1
set -x
git -C /repo worktree remove --force $WT 2>/dev/null
git -C /repo worktree add -q --detach $WT HEAD || exit 9
/verif/tools/build_rust.sh >/dev/null 2>&1; cp /verif/.build/_sedpack_rs.so $WT/src/sedpack/_sedpack_rs.cpython-312-x86_64-linux-gnu.so   # extension built from HEAD (the pre-built one in /repo is older than the Rust fix)
DEMO=$(ls $SRC | grep -E '^(demo|test_demo).*\.py$' | head -1)
cp $SRC/$DEMO $WT/$DEMO
for extra in $SRC/*.py; do [ "$extra" != "$SRC/$DEMO" ] && cp $extra $WT/ ; done
mkdir -p $WT/_scratch; cd $WT
export PYTHONPATH=$WT/src TF_CPP_MIN_LOG_LEVEL=3
rundemo() {
  # demos hard-code /tmp/wt-<PROP>; run them from the confirm worktree with paths rewritten
  sed "s#$PREFIX$PROP#$WT#g" $DEMO > _demo_run.py
  if grep -q "def test_" _demo_run.py && ! grep -q "__main__" _demo_run.py; then
    cp _demo_run.py test_demo_run.py; timeout 900 /venv/bin/python -m pytest -q -p no:cacheprovider test_demo_run.py
  else
    timeout 900 /venv/bin/python _demo_run.py
  fi
}
rundemo; CLEAN_RC=$?
git apply $SRC/patch.diff; APPLY_RC=$?
if grep -q 'rust/' $SRC/patch.diff; then
  ( cd rust && CARGO_NET_OFFLINE=true PYO3_PYTHON=/venv/bin/python CARGO_TARGET_DIR=$WT/rust/target cargo build --release --offline --features pyo3/extension-module --quiet && cp target/release/libsedpack_rs.so ../src/sedpack/_sedpack_rs.cpython-312-x86_64-linux-gnu.so )
fi
rundemo; PATCHED_RC=$?
rm -f _demo_run.py test_demo_run.py
timeout 2400 /venv/bin/python -m pytest -q -p no:cacheprovider -n 6 --timeout=900 tests > suite.log 2>&1; SUITE_RC=$?
tail -3 suite.log
SUITE_LINE=$(tail -1 suite.log)
set +x
echo "RESULT $PROP-$TAG$L apply=$APPLY_RC clean_demo=$CLEAN_RC patched_demo=$PATCHED_RC suite=$SUITE_RC :: $SUITE_LINE"
if [ $APPLY_RC = 0 ] && [ $CLEAN_RC = 0 ] && [ $PATCHED_RC != 0 ] && [ $SUITE_RC = 0 ]; then
  D=/verif/seeded/$PROP-$TAG$L; mkdir -p $D
  for extra in $SRC/*.py; do cp $extra $D/ ; done
  cp $SRC/patch.diff $D/patch.diff; cp $SRC/$DEMO $D/$DEMO; cp $SRC/notes.md $D/notes.md 2>/dev/null
  /venv/bin/python - "$PROP" "$TAG$L" "$SUITE_LINE" "$(git -C /repo rev-parse --short HEAD)" <<'PY'
import json,sys
prop,l,suite,head=sys.argv[1:5]
notes=open(f'/verif/seeded/{prop}-{l}/notes.md').read() if __import__('os').path.exists(f'/verif/seeded/{prop}-{l}/notes.md') else ''
json.dump({"id":f"{prop}-{l}","breaks_property":prop,"origin":"independent sub-agent given only the property record and a scratch worktree",
 "needs_to_manifest":"see notes.md (written by the sub-agent)","confirmed_by_me":{"repo_head":head,"demo_without_patch":"exit 0","demo_with_patch":"non-zero exit","existing_suite_with_patch":suite.strip(),"how":"tools/confirm_mutant.sh in a scratch worktree /tmp/confirm-* (removed afterwards)"},
 "caught_by":[]},open(f'/verif/seeded/{prop}-{l}/meta.json','w'),indent=1)
PY
  echo "KEPT $D"
fi
cd /; git -C /repo worktree remove --force $WT
