#!/usr/bin/env python3
"""Print the markdown table of seeded changes (mechanism, verdict of the last sweep)."""
import json, os
MECH = {
 "C02-a": "LazyPool worker `get(timeout)`; an idle time-out is treated as end of input",
 "C02-b": "unshuffled concurrent path as bounded deque of futures: first shard's future silently dropped when shards > parallelism",
 "C02-r2a": "`round_robin_async` prefill through `asyncstdlib.islice` closes the outer shard stream: shards beyond the buffer lost",
 "C02-r2b": "single-reader fast path applies `process_record` twice",
 "C03-a": "pipelined unshuffled reader drains its slots from index 0 instead of the rotating cursor",
 "C03-r2a": "per-metadata limit rewritten as dict-of-groups: selected shards come out grouped by metadata, not in write order",
 "C03-r2b": "`as_tfdataset` passes `deterministic=False` to the `process_record` map when a thread pool exists",
 "C07-r2a": "Rust: next task sent before waiting for the result; closed channel of a finished worker treated as end of results",
 "C07-r2b": "`round_robin_async` warms its buffer with `gather(return_exceptions=True)` and drops exception heads",
 "C10-r2a": "'metadata given for the first time' branch no longer checks the shard size (shard of size+1)",
 "C10-r2b": "written counter advanced before `shard.write`; a rejected write closes the shard one short",
 "C11-r2a": "identity fast path: same object passed again skips comparison and copy",
 "C11-r2b": "`if custom_metadata is not None`: an explicit `{}` wipes the label",
 "C12-r2a": "first-k via a stack-based walker that visits the last child list first",
 "C12-r2b": "predicate verdict cached per metadata value",
 "C14-r2a": "async prefetch task with `asyncio.Queue(maxsize=shuffle)`: unbounded when shuffle=0",
 "C14-r2b": "Rust: shared result channel + reorder buffer; idle workers refilled immediately",
 "C16-r2a": "digest memoised per (path, size, mtime_ns)",
 "C16-r2b": "hash objects in a dict keyed by algorithm name: repeated algorithms collapse",
 "C17-r2a": "shared path check rejects a component equal to '/' instead of `is_absolute()` ('//x' passes)",
 "C17-r2b": "absolute path accepted when `str(path).startswith(str(root))`",
 "C18-r2a": "fb: safe-cast rejection after `StartVector`; builder left nested, shard lost",
 "C18-r2b": "example counter in the base writer, advanced before `_write`",
 "C19-r2a": "tfrec `as_tfdataset`: `repeat()` after `batch(drop_remainder=repeat)`",
 "C19-r2b": "`round_robin_async` fill via `asyncstdlib.zip` closes the shard stream",
 "C20-r2a": "parsed shard lists cached per (path, recorded checksums): never re-read when no algorithms are configured",
 "C20-r2b": "`dataset_info.json` dumped with `exclude_defaults=True`: recording version dropped",
 "C02-r3a": "shard decoder cached on the Dataset object; `process_record` overwritten by an overlapping pass",
 "C02-r3b": "iterative shard-list walk never yields the own shards of a list that has children",
 "C03-r3a": "cached shard-path list + in-place `random.shuffle` when repeat=False: a shuffled pass permutes later unshuffled passes of the same handle",
 "C03-r3b": "unshuffled batch cursor moved onto the Dataset object: two live iterators share it",
 "C04-r3a": "parsed shard lists cached on the handle and reused by fillers: children created later are overwritten",
 "C04-r3b": "`write_config` starts the merge at the shared depth of the updates instead of 1",
 "C06-r3a": "`safe_update_file` keeps a backup: target renamed away before the temp file is renamed over it",
 "C06-r3b": "`shard.close()` handed to a background thread; the shard is listed before it is closed",
 "C07-r3a": "LazyPool wraps worker failures in RuntimeError + `round_robin` refill swallows RuntimeError",
 "C07-r3b": "fb `_iterate_content` returns early on empty content (zero-byte shard = no examples)",
 "C08-r3a": "merge groups deeper updates by the leaf directory name instead of the next path component",
 "C08-r3b": "per-handle memo of parsed shard lists keyed by (path, checksums): stale on the kept handle without algorithms",
 "C09-r3a": "`write_config` after every worker result + deletes 'stale' temp files of running workers",
 "C09-r3b": "shard names from a private `random.Random()` (not re-seeded after fork) + fixed writer directory names",
 "C13-r3a": "consumer polls results with a timeout and stops when no worker is alive (result still queued)",
 "C13-r3b": "pool-wide 'stop early' event set by a stale failing call after the pool was reused",
 "C14-r3a": "LazyPool pulls one extra input every 50 ms the consumer waits",
 "C14-r3b": "tf.data `cycle_length = file_parallelism or len(shard_paths)`",
 "C19-r3a": "Rust: static iterator key = map length (two live streams, epoch roll-over)",
 "C19-r3b": "unshuffled reader as sliding window of futures topped up from done-callbacks; deque append outside the lock",
 "C05-r3a": "128 KiB read buffer of `hash_checksums` hoisted to module level: two threads hashing at once corrupt each other's digests",
 "C05-r3b": "parsed shard lists memoised per Dataset; `write_config` forgets only the updated lists, not their rewritten ancestors",
 "C10-r3a": "filler-wide 'shard is full' flag set after a write, consumed by the next one (wrong split when writes interleave)",
 "C10-r3b": "npz writer `_buffer` declared at class level and only mutated in place: all writers of the process share it",
 "C11-r3a": "`validate_assignment=True` on ShardInfo + plain assignment instead of deepcopy: nested values stay aliased",
 "C11-r3b": "metadata change detection walks the keys of the new label only (sub-dictionary = unchanged)",
 "C12-r3a": "tf.data generator path passes `shards=len(shard_paths)` on: a second selection over the resolved one",
 "C12-r3b": "metadata keys serialised once for the unfiltered list, zipped against the filtered one",
 "C15-r3a": "Rust: `allow_threads` while the static iterator mutex is held (lock-order inversion with the GIL)",
 "C15-r3b": "Rust worker catches the panic and sends None: failed shard = end of data",
 "C16-r3b": "hash objects grouped hashlib-first, xxhash-last instead of the configured order",
 "C17-r3a": "`check()` first pass walks child lists from raw JSON (paths opened before validation)",
 "C17-r3b": "reader sites join the root with `PureWindowsPath(rel).as_posix()` after validation: `..\\` escapes",
 "C18-r3a": "npz writer checks 'exactly the declared names' only for the first example of a shard",
 "C18-r3b": "new ShardProgress stored only after a successful write + idempotent `Shard.close`: a rejected rotating write lists the old shard twice",
 "C20-r3a": "`write_config(updated_infos=[])` returns the existing file instead of re-serialising the description",
 "C20-r3b": "root resolved with `strict=True`, fallback keeps the relative path of a not-yet-created dataset",
 "C03-b": "`imap_unordered` + results re-sorted but fillers merged in completion order",
 "C04-a": "merge keeps un-updated children verbatim: child with a deeper update listed twice",
 "C04-b": "example counter incremented before `_write`: rejected writes counted",
 "C04-r2a": "list total recomputed from own shards only (children's share dropped)",
 "C04-r2b": "continuation shard `model_copy` inherits the predecessor's example counter",
 "C05-a": "`_check_shard_list_info` level loop descends only the last list of each level",
 "C05-bp": "merge keeps stale checksum of a child list it rewrites (check rejects an untouched dataset)",
 "C05-r2a": "digest memoised per (path, inode, size, mtime): same-size in-place change with preserved mtime goes unnoticed",
 "C05-r2b": "shards verified in batches of 4 via `zip(*[iter]*4)`: incomplete last batch dropped",
 "C06-a": "`safe_update_file` renames the temp file before it is flushed/closed",
 "C06-bp": "merge writes the parent list without its children before recursing",
 "C06-r2a": "progress update of the split list written in place (no temp + rename)",
 "C06-r2b": "progress updates serialise only the session's new shards (committed ones unreachable until exit)",
 "C07-a": "worker puts its sentinel before recording its exception (race with the consumer)",
 "C07-b": "`except Exception` narrowed to `(OSError, ValueError)`: other decoder errors kill the worker",
 "C08-a": "merge keeps a stale child and the rebuilt one: examples twice",
 "C08-b": "`write_config` fast path stores a sub-directory list as the split list; lost by the next session",
 "C08-r2a": "continue-or-create decided once per filler instead of once per split",
 "C08-r2b": "known child superseded when an updated path string `startswith` it (`part1` / `part10`)",
 "C09-a": "results collected unordered and re-sorted lexicographically (>= 11 writers)",
 "C09-b": "`exists()` then `mkdir` (no `exist_ok`) race on the split directory",
 "C09-r2a": "fillers capped at `os.cpu_count()` and shared round-robin: lost update on a shared list",
 "C09-r2b": "writers that wrote nothing dropped from the returned list",
 "C10-a": "per-split counter never reset; 'full' = total is a multiple of the size",
 "C10-b": "metadata equality by `json.dumps` without key order",
 "C11-a": "change detection against the last *passed* value (incl. None)",
 "C11-b": "continuation shard inherits the label + copy only when unlabelled",
 "C12-ap": "per-metadata limit via `itertools.groupby` (only consecutive groups)",
 "C12-b": "cached shard list truncated in place by `shards=k`",
 "C13-a": "stale sentinel counter across pool reuse",
 "C13-b": "`empty()` / `get()` check-then-act drain on the failure path",
 "C13-r2a": "reset skips the sentinel broadcast when the last fed element was a sentinel",
 "C13-r2b": "failed input re-queued behind the sentinels: dropped, error never raised",
 "C14-a": "one-out/one-in refill replaced by a top-up loop on `qsize()`",
 "C14-b": "`repeat=False`: whole shard list handed to `executor.map`",
 "C15-a": "Rust: `Drop` skips stop messages when exhausted and joins without clearing channels",
 "C15-b": "Rust: static iterator key = map length (collision after an exit)",
 "C15-r2a": "Rust: workers `recv_timeout(2 s)`: idle worker exits while the consumer pauses",
 "C15-r2b": "`np_bytes.view(dtype)` drops the little-endian reinterpretation for big-endian declarations",
 "C16-a": "hash input via reused buffer + `itertools.tee`: later algorithms see the last chunk",
 "C16-b": "`xxh64` mapped to `xxh3_64`",
 "C17-ap": "'..' allowed when the final depth is positive (running minimum not checked)",
 "C17-b": "leaf shard records built with `model_construct` (validators bypassed)",
 "C18-a": "fb: stale attribute offsets survive a rejected write",
 "C18-b": "shape check weakened to element count",
 "C19-a": "duplicate shard paths removed from each batch of the cyclic stream",
 "C19-b": "Rust generator multiplies the shard list before the shard-level shuffle",
 "C20-a": "version gate compares components as strings",
 "C20-b": "`absolute()` instead of `resolve()` + unresolved containment check",
}
res = json.load(open('/verif/seeded/RESULTS.json'))
import io, sys
out = io.StringIO()
_print = print
def print(*a):  # noqa
    _print(*a, file=out)
print("| id | mechanism of the seeded change | check | verdict (violation class) |")
print("|---|---|---|---|")
for i in sorted(set(MECH) | set(res)):
    r = res.get(i, {})
    print(f"| {i} | {MECH.get(i, '')} | {r.get('check', '')} | {r.get('result', 'not swept yet')} {' '.join(r.get('violation_classes', [])).replace('class=', '')} |")

table = out.getvalue()
if len(sys.argv) > 1 and sys.argv[1] == "--update-design":
    d = open('/verif/DESIGN.md').read()
    start, end = "<!-- TABLE START -->", "<!-- TABLE END -->"
    if "@@TABLE@@" in d:
        d = d.replace("@@TABLE@@", start + "\n" + table + end)
    else:
        d = d[:d.index(start)] + start + "\n" + table + d[d.index(end):]
    open('/verif/DESIGN.md', 'w').write(d)
    _print("DESIGN.md table updated:", table.count("CAUGHT"), "caught,", table.count("MISSED"), "missed")
else:
    _print(table)
