#!/usr/bin/env python3
"""Regenerate /verif/MANIFEST.json from the table below (run with any python3)."""
import json, os

NA = {
 "C01": "pure function of (format, compression, dtype, shape, value bits, input layout): no schedule, clock, crash point or fault in its statement or quantifier; deciding it is input generation (property-based testing), not simulation - see DESIGN.md section 3/C01. The concurrency slice (no reader corrupts payloads under any interleaving) is covered by C02/C03 whose oracles compare whole examples byte-exactly.",
}
PENDING = "check under construction in this build round (DESIGN.md section 8 build order); not claimed until its check is committed"

CHECKS = {
 "C14": ("E-read", "exploration", "counters at the source-iterator seam (primitives) and at the open() seam (interfaces) while k elements are taken from short, long (40-90 shards) and infinite streams, with scheduler policies that starve the consumer so workers run as far ahead as the code allows; bound 4(b+T)+8 independent of stream length; taking k from an infinite stream must terminate within the step budget", "TFRecord/Rust file opens are invisible at the Python seam (Rust read-ahead is measured in the Rust harness of C15)", "deterministic simulation (consumer-starving seeded schedules) with counting seams", "3/C14"),
 "C19": ("E-read", "exploration", "prefixes of 2-4 epochs of the repeat=True stream of every interface under seeded schedules: membership, byte-exactness, periodicity when unshuffled, per-epoch permutation for the Rust reader, progress within the step budget, no simulated thread left after abandonment", "Rust/tf.data uncontrolled (observed executions)", "deterministic simulation (seeded schedules) of repeating streams against the one-pass reference", "3/C19"),
 "C02": ("E-read", "exploration", "buffering primitives (shuffle buffer, round robin, LazyPool composition; sync and async) and every iteration interface over generated datasets with a counting process_record; LazyPool path under the seeded baton scheduler, executor path on a simulated executor, async path on a virtual-time loop with seeded I/O completion order; Rust and tf.data observed as real uncontrolled executions", "Rust worker threads and tf.data threads are not scheduled by the simulator (multiset assertions only); SimExecutor is a stub", "deterministic simulation (seeded thread/IO-completion schedules) of the real reader code against a reference model", "3/C02"),
 "C03": ("E-read", "exploration", "shuffle=0 sequences of all interfaces compared across parallelism, passes, reopen and seeded completion orders; write-order oracle from the reference model with multi-writer sessions run on the simulated process pool", "cross-session order is not asserted (the property does not fix it); Rust/tf.data uncontrolled", "deterministic simulation (seeded completion orders of executor tasks, async reads and simulated writer processes) + reference-model order oracle", "3/C03"),
 "C06": ("E-crash", "fault_enumeration", "every file-system effect boundary (open, each partial write chunk, close, rename, mkdir; per-record for TFRecord) of a seeded crashing session is a crash point at which the directory is re-opened, walked, digested and fully iterated; torn writes come from a chunking raw-file layer; a concurrent reader task is interleaved by the scheduler; tens of thousands of crash instants per quick run", "crash = process death with the OS up (no fsync/power-loss reordering); TensorFlow's C++ writes are not chunked", "deterministic simulation with fault injection: crash at every FS-effect boundary + torn writes + interleaved reader", "3/C06"),
 "C04": ("E-sess", "exploration", "seeded histories of completed sessions (root / fresh, reused and nested sub-directories / multi-writer calls under simulated worker interleavings, reopen or keep) with an independent plain-json walker and a full decode of every shard after every session; hundreds of distinct histories per quick run", "reference walker and per-format shard decoder are trusted; SimPool is a stub for multiprocessing.Pool; TFRecord I/O not intercepted", "deterministic simulation (seeded session histories + simulated process pool) against an independent metadata walker", "3/C04"),
 "C07": ("E-read", "exploration", "stored-byte faults (deleted, emptied, truncated, garbage shard; first/middle/last; one or two shards) under every iteration interface; the seeded scheduler decides which worker meets the damaged shard and when (LazyPool with queue- and line-level pre-emption, SimExecutor, virtual-time loop); exact deadlock verdict for controlled components, forked child + watchdog (+ fresh-interpreter confirmation for tf.data) for uncontrolled ones", "damage the decoder accepts is out of scope; Rust worker threads and tf.data are uncontrolled; the Rust silent-truncation defect is an open known finding", "deterministic simulation with fault injection (stored-byte faults x seeded worker schedules, exact deadlock detection)", "3/C07"),
 "C08": ("E-sess", "exploration", "seeded session histories with reopen against a reference model (multiset per split, byte-exact), every session kind of the statement; Dataset.create over an existing dataset must raise and leave the tree byte-identical", "reference model trusted; SimPool stub; one live handle at a time", "deterministic simulation (seeded session histories with restart) against a reference model", "3/C08"),
 "C10": ("E-sess", "exploration", "invariant over every recorded shard after every session of seeded histories with counts around multiples of examples_per_shard, interleaved splits and metadata changes", "no schedule dimension of its own (stated in DESIGN.md): the simulator contributes generated histories and multi-writer interleavings", "deterministic simulation harness as history generator + invariant over recorded shards", "3/C10"),
 "C11": ("E-sess", "exploration", "seeded write sequences whose metadata argument is absent, repeated, alternating, a fresh equal copy or one dict mutated in place (aliasing fault), model snapshots the argument at call time; label of the containing shard and selection by metadata are checked", "no schedule dimension of its own; examples written without metadata are unconstrained (documented inheritance)", "deterministic simulation harness as history generator with injected caller-side aliasing", "3/C11"),
 "C12": ("E-read", "exploration", "a seeded sequence of selections (first-k, predicate, per-metadata limit and combinations) on one dataset handle through every interface accepting the option, compared with the documented rule applied to an independently walked shard table; empty selections must raise", "schedule dimension is thin (the selection routine is sequential); concurrent interfaces run under their seeded schedules with the option on", "deterministic simulation harness (E-read) + reference selection model", "3/C12"),
 "C13": ("E-pool", "exploration", "seeded search over interleavings of the real LazyPool (T+1 threads) at queue-operation and source-line granularity with exact deadlock detection; tens of thousands of distinct schedules per quick run; evidence not proof", "trusts the simulated queue/threading semantics; pre-emption at queue ops, function calls and (sampled) source lines, not bytecodes", "deterministic simulation with fault injection (seeded baton scheduler, failing mapped function)", "3/C13, 2.2"),
}
ENGINES = [
 {"name": "E-pool", "path": "simlib/sched.py", "serves_properties": ["C13"], "kind_free_text": "baton scheduler: real OS threads, one runnable at a time, seeded choice at every queue/lock/sleep/line yield point, exact deadlock detection"},
 {"name": "E-read", "path": "simlib/eread.py", "serves_properties": ["C02", "C03", "C07", "C12", "C14", "C19"], "kind_free_text": "iteration interfaces over generated datasets: LazyPool on the baton scheduler, SimExecutor, virtual-time asyncio loop (simlib/simloop.py), real Rust extension and tf.data uncontrolled"},
 {"name": "E-crash", "path": "simlib/ecrash.py", "serves_properties": ["C06"], "kind_free_text": "E-sess + crash oracle at every FS-effect boundary, torn writes, interleaved reader task"},
 {"name": "E-sess", "path": "simlib/esess.py", "serves_properties": ["C04", "C08", "C10", "C11"], "kind_free_text": "seeded session-history generator + reference model; real sedpack on tmpfs behind the instrumented FS seam; multi-writer calls on a simulated process pool"},
]

props = [json.loads(l) for l in open('/verif/properties.jsonl')]
checks = []
for pid in sorted(CHECKS):
    eng, level, text, note, tech, ref = CHECKS[pid]
    checks.append({
        "property_id": pid, "quick_cmd": f"./check {pid} quick", "thorough_cmd": f"./check {pid} thorough",
        "evidence_file": f"evidence/{pid}.json", "replay_cmd_template": "./check replay {path}", "engine": eng,
        "level_claimed": {"category": level, "text": text, "design_ref": "DESIGN.md " + ref},
        "level_note": note, "technique": tech})
na = []
for p in props:
    if p["id"] in CHECKS: continue
    na.append({"property_id": p["id"], "reason": NA.get(p["id"], PENDING)})
man = {
 "version": 1,
 "setup_cmd": "cd /verif && ./tools/setup.sh",
 "hooks": {"guard": "SEDPACK_VERIF", "enable": "no source hooks: every seam is a module attribute, constructor argument or file path re-bound by the simulator at run time (SEDPACK_VERIF is reserved and unused by /repo)", "baseline_off_cmd": "cd /repo && /venv/bin/python -m pytest -ra -q -p no:cacheprovider --timeout=900 --continue-on-collection-errors", "source_commits": [], "add_only": True},
 "engines": ENGINES, "checks": checks, "not_applicable": na,
 "notes": "Deterministic simulation with fault injection; see DESIGN.md. Exit codes of ./check: 0 held, 1 VIOLATION, 2 harness error. Genuine defects repaired in /repo are listed in known_findings.json (status fixed).",
}
json.dump(man, open('/verif/MANIFEST.json', 'w'), indent=1)
print("claimed:", sorted(CHECKS))
