#!/bin/bash
# usage: mk_worktree.sh <ID>  -> creates /tmp/wt-<ID> at /repo HEAD with the prebuilt .so copied in
set -e
ID=$1
git -C /repo worktree add -q --detach /tmp/wt-$ID HEAD
cp /repo/src/sedpack/_sedpack_rs*.so /tmp/wt-$ID/src/sedpack/
/venv/bin/python - "$ID" <<'PY'
import json,sys
for l in open('/verif/properties.jsonl'):
    p=json.loads(l)
    if p['id']==sys.argv[1]:
        json.dump(p,open(f'/tmp/wt-{p["id"]}/PROPERTY.json','w'),indent=1)
PY
echo /tmp/wt-$ID
