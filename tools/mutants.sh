#!/bin/bash
# Sensitivity sweep: every mutant of $MUT_DIR (default seeded; selfmut = hand-written self-test mutants) (<dir>/<id>/patch.diff) is applied to a scratch
# worktree of /repo (never to /repo itself), the quick check of the property it breaks is run
# against that worktree (VERIF_REPO), and the verdict is recorded in seeded/RESULTS.json.
# usage: tools/mutants.sh [id ...]     env: MUT_BUDGET_S (default 25)
cd "$(dirname "$0")/.."
WT=/var/tmp/sedpack-mut-$$
ALT=/var/tmp/sedpack-mut-out-$$
export VERIF_BUILD=/var/tmp/sedpack-mut-build-$$
trap 'git -C /repo worktree remove --force $WT 2>/dev/null; rm -rf $ALT' EXIT
git -C /repo worktree add -q --detach $WT HEAD || exit 9
mkdir -p $ALT
DIR=${MUT_DIR:-seeded}
IDS=${@:-$(ls $DIR | grep -v RESULTS)}
for id in $IDS; do
  [ -f $DIR/$id/patch.diff ] || continue
  prop=${id%%-*}
  git -C $WT reset -q --hard HEAD; git -C $WT clean -qfd
  if ! git -C $WT apply $PWD/$DIR/$id/patch.diff 2>/dev/null && ! git -C $WT apply -3 $PWD/$DIR/$id/patch.diff 2>/dev/null; then echo "$id NOAPPLY"; echo "{\"id\":\"$id\",\"result\":\"patch does not apply at HEAD\"}" > $ALT/$id.json; continue; fi
  t0=$(date +%s)
  out=$(VERIF_REPO=$WT VERIF_OUT=$ALT VERIF_NO_DETERMINISM=1 VERIF_BUDGET_S=${MUT_BUDGET_S:-25} ./check $prop quick 2>/dev/null | grep -E '^VIOLATION|class=|quick:' | grep -v KNOWN)
  rc=${PIPESTATUS[0]}
  cls=$(echo "$out" | grep -o 'class=[a-z_0-9]*' | sort -u | tr '\n' ' ')
  t1=$(date +%s)
  if echo "$out" | grep -q '^VIOLATION'; then verdict=CAUGHT; else verdict=MISSED; fi
  # the minimised replay file of the first violation must reproduce it in a fresh process
  # (same class, identical event digest) against the same changed tree
  replay=""
  if [ $verdict = CAUGHT ] && [ -z "$MUT_NO_REPLAY" ]; then
    rf=$(echo "$out" | grep -o 'replay=[^ ]*' | head -1 | cut -d= -f2)
    if [ -n "$rf" ] && [ -f "$rf" ]; then
      rout=$(VERIF_REPO=$WT VERIF_OUT=$ALT ./check replay $rf 2>/dev/null | grep -E 'digest_identical|REPLAY-DIVERGED' | head -1)
      case "$rout" in *digest_identical=True*) replay=identical;; *digest_identical=False*) replay=same_class_other_digest;; *) replay=diverged;; esac
    else replay=no_file; fi
    rm -rf $ALT/replays
  fi
  echo "$id $verdict $cls ($((t1-t0))s) replay=$replay"
  /venv/bin/python - "$id" "$prop" "$verdict" "$cls" "$((t1-t0))" "$ALT" "$replay" <<'PY'
import json,sys
i,prop,verdict,cls,sec,alt,replay=sys.argv[1:8]
d={"id":i,"check":f"./check {prop} quick","result":verdict,"violation_classes":cls.split(),"seconds":int(sec)}
if replay: d["replay_in_fresh_process"]=replay
json.dump(d,open(f"{alt}/{i}.json","w"))
PY
done
/venv/bin/python - "$ALT" "$(git -C /repo rev-parse --short HEAD)" "$DIR" <<'PY'
import json,sys,glob,os
alt,head=sys.argv[1:3]; D=sys.argv[3]
res={}
if os.path.exists('/verif/'+D+'/RESULTS.json'):
    res=json.load(open('/verif/'+D+'/RESULTS.json'))
for f in sorted(glob.glob(alt+'/*.json')):
    r=json.load(open(f)); r['repo_head']=head; res[r['id']]=r
    m='/verif/'+D+'/%s/meta.json'%r['id']
    if os.path.exists(m):
        meta=json.load(open(m)); meta['caught_by']=[r['check']] if r.get('result')=='CAUGHT' else []; meta['last_sweep']=r
        json.dump(meta,open(m,'w'),indent=1)
json.dump(res,open('/verif/'+D+'/RESULTS.json','w'),indent=1,sort_keys=True)
print(sum(1 for r in res.values() if r.get('result')=='CAUGHT'),"caught of",len(res))
PY
rm -rf /var/tmp/sedpack-mut-build-$$
