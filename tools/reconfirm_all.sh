#!/bin/bash
# Re-confirm every seeded change at /repo HEAD in a scratch worktree: the demonstration passes without
# the patch, fails with it, and the existing suite passes with it. Results -> seeded/<id>/meta.json.
# usage: tools/reconfirm_all.sh [id ...]
cd "$(dirname "$0")/.."
IDS=${@:-$(ls seeded | grep -v RESULTS)}
/verif/tools/build_rust.sh >/dev/null 2>&1
HEAD=$(git -C /repo rev-parse --short HEAD)
for id in $IDS; do
  D=/verif/seeded/$id; [ -f $D/patch.diff ] || continue
  PROP=${id%%-*}
  WT=/tmp/reconfirm-$id
  git -C /repo worktree remove --force $WT 2>/dev/null
  git -C /repo worktree add -q --detach $WT HEAD || continue
  cp /verif/.build/_sedpack_rs.so $WT/src/sedpack/_sedpack_rs.cpython-312-x86_64-linux-gnu.so
  DEMO=$(ls $D | grep -E '^(demo|test_demo).*\.py$' | head -1)
  for f in $D/*.py; do sed -e "s#/tmp/wt2-$PROP#$WT#g" -e "s#/tmp/wt-$PROP#$WT#g" $f > $WT/$(basename $f); done
  cd $WT; export PYTHONPATH=$WT/src TF_CPP_MIN_LOG_LEVEL=3
  rundemo() {
    if grep -q "def test_" $DEMO && ! grep -q "__main__" $DEMO; then timeout 900 /venv/bin/python -m pytest -q -p no:cacheprovider $DEMO >/dev/null 2>&1
    else timeout 900 /venv/bin/python $DEMO >/dev/null 2>&1; fi
  }
  rundemo; CLEAN=$?
  git apply $D/patch.diff; APPLY=$?
  if grep -q 'rust/' $D/patch.diff; then
    ( cd rust && CARGO_NET_OFFLINE=true PYO3_PYTHON=/venv/bin/python CARGO_TARGET_DIR=/var/tmp/reconfirm-target cargo build --release --offline --features pyo3/extension-module --quiet 2>/dev/null && cp /var/tmp/reconfirm-target/release/libsedpack_rs.so ../src/sedpack/_sedpack_rs.cpython-312-x86_64-linux-gnu.so )
  fi
  rundemo; PATCHED=$?
  for f in $D/*.py; do rm -f $WT/$(basename $f); done
  timeout 2400 /venv/bin/python -m pytest -q -p no:cacheprovider -n 6 --timeout=900 tests > suite.log 2>&1; SUITE=$?
  LINE=$(tail -1 suite.log)
  OK=no; [ $APPLY = 0 ] && [ $CLEAN = 0 ] && [ $PATCHED != 0 ] && [ $SUITE = 0 ] && OK=yes
  echo "RECONFIRM $id ok=$OK apply=$APPLY clean_demo=$CLEAN patched_demo=$PATCHED suite=$SUITE :: $LINE"
  /venv/bin/python - "$id" "$OK" "$HEAD" "$LINE" "$CLEAN" "$PATCHED" <<'PY'
import json,sys,os
i,ok,head,line,clean,patched=sys.argv[1:7]
m=f'/verif/seeded/{i}/meta.json'
meta=json.load(open(m)) if os.path.exists(m) else {"id":i,"breaks_property":i.split('-')[0]}
meta["reconfirmed_at_repo_head"]={"head":head,"ok":ok=="yes","demo_without_patch_exit":int(clean),"demo_with_patch_exit":int(patched),"existing_suite_with_patch":line.strip()}
json.dump(meta,open(m,'w'),indent=1)
PY
  cd /; git -C /repo worktree remove --force $WT
done
rm -rf /var/tmp/reconfirm-target
