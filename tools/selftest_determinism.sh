#!/bin/bash
# usage: selftest_determinism.sh [N] [ID...]  - digests of cases 0..N-1 under PYTHONHASHSEED 0,1,2 (fresh interpreters, run in parallel) must agree
cd "$(dirname "$0")/.."
N=${1:-12}; shift
IDS=${@:-$(python3 -c "import json;print(' '.join(c['property_id'] for c in json.load(open('MANIFEST.json'))['checks']))")}
IDX=$(seq -s, 0 $((N-1)))
RIDX=$(seq -s, $((N-1)) -1 0)   # hash seed 2 also runs the cases in reverse order (order dependence inside one process)
rc=0
for id in $IDS; do
  for hs in 0 1 2; do
    if [ $hs = 2 ]; then ORDER=$RIDX; else ORDER=$IDX; fi
    ( PYTHONHASHSEED=$hs /venv/bin/python simlib/main.py digests $id quick $ORDER 2>/dev/null | grep '^DIGESTS' | /venv/bin/python -c "import json,sys; d=json.loads(sys.stdin.read()[8:]); print('DIGESTS '+json.dumps(dict(sorted(d.items(), key=lambda kv:int(kv[0])))))" > /tmp/det-$id-$hs.txt ) &
  done
done
wait
for id in $IDS; do
  if cmp -s /tmp/det-$id-0.txt /tmp/det-$id-1.txt && cmp -s /tmp/det-$id-0.txt /tmp/det-$id-2.txt && [ -s /tmp/det-$id-0.txt ]; then echo "$id deterministic over $N cases x 3 hash seeds"; else echo "$id NONDETERMINISTIC"; /venv/bin/python - $id <<'PY'
import json,sys
i=sys.argv[1]
d=[json.loads(open(f'/tmp/det-{i}-{h}.txt').read()[8:] or '{}') for h in (0,1,2)]
print({k:[x.get(k,'')[:8] for x in d] for k in d[0] if len({x.get(k) for x in d})>1})
PY
  rc=1; fi
done
exit $rc
