#!/bin/bash
# Offline setup: verify the interpreter and imports; build Rust pieces if the
# toolchain is present (checks rebuild them from /repo on demand anyway).
set -e
cd "$(dirname "$0")/.."
/venv/bin/python -c "import numpy, pydantic, aiofiles, asyncstdlib, flatbuffers, xxhash, semver; print('python deps ok')"
mkdir -p out/replays evidence .build
tools/build_rust.sh || echo "rust prebuild failed (checks will retry)"
tools/build_rustsim.sh || echo "rustsim prebuild failed (checks will retry)"
echo setup done
