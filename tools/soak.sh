#!/bin/bash
# Soak: thorough tier of every claimed check under successive VERIF_SEED values until
# the time budget is used; every non-zero exit is logged with its output.
# usage: tools/soak.sh <hours> [first_seed] [budget_s_per_check]
cd "$(dirname "$0")/.."
HOURS=${1:-2}; SEED=${2:-100}; BUD=${3:-180}
END=$(( $(date +%s) + $(printf '%.0f' "$(echo "$HOURS*3600" | bc)") ))
./tools/setup.sh > soak-setup.log 2>&1
IDS=$(python3 -c "import json;print(' '.join(c['property_id'] for c in json.load(open('MANIFEST.json'))['checks']))")
mkdir -p soak-logs
export VERIF_OUT=$PWD/soak-out
while [ $(date +%s) -lt $END ]; do
  for id in $IDS; do
    [ $(date +%s) -lt $END ] || break
    VERIF_SEED=$SEED VERIF_BUDGET_S=$BUD ./check $id thorough > soak-logs/$id-$SEED.log 2>&1
    rc=$?
    line=$(grep -E "thorough:" soak-logs/$id-$SEED.log | tail -1)
    echo "seed=$SEED $id rc=$rc $line"
    if [ $rc = 0 ]; then rm -f soak-logs/$id-$SEED.log; else grep -E 'VIOLATION|class=|HARNESS' soak-logs/$id-$SEED.log | cut -c1-600; fi
  done
  SEED=$((SEED+1))
done
echo SOAK-DONE
