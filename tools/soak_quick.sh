#!/bin/bash
# Soak of the QUICK tier: every claimed check under successive VERIF_SEED values until the
# time budget is used; every non-zero exit (or VIOLATION line) is logged with its output.
# usage: tools/soak_quick.sh <hours> [first_seed]
cd "$(dirname "$0")/.."
HOURS=${1:-2}; SEED=${2:-1}
END=$(( $(date +%s) + $(printf '%.0f' "$(echo "$HOURS*3600" | bc)") ))
./tools/setup.sh > soak-setup.log 2>&1
IDS=$(python3 -c "import json;print(' '.join(c['property_id'] for c in json.load(open('MANIFEST.json'))['checks']))")
mkdir -p soak-logs
export VERIF_OUT=$PWD/soak-out
while [ $(date +%s) -lt $END ]; do
  for id in $IDS; do
    [ $(date +%s) -lt $END ] || break
    t0=$(date +%s)
    VERIF_SEED=$SEED ./check $id quick > soak-logs/q-$id-$SEED.log 2>&1
    rc=$?
    line=$(grep -E "quick:" soak-logs/q-$id-$SEED.log | tail -1)
    echo "seed=$SEED $id rc=$rc $(( $(date +%s) - t0 ))s $line"
    if [ $rc = 0 ] && ! grep -q '^VIOLATION' soak-logs/q-$id-$SEED.log; then rm -f soak-logs/q-$id-$SEED.log; else grep -E 'VIOLATION|class=|HARNESS|NONDET|determin' soak-logs/q-$id-$SEED.log | cut -c1-600; fi
  done
  SEED=$((SEED+1))
done
echo SOAK-DONE
