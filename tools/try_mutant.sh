#!/bin/bash
# usage: try_mutant.sh <patch.diff> <ID> [tier]   -- applies the patch to /repo, runs the check, always reverts
PATCH=$1; ID=$2; TIER=${3:-quick}
cd /repo || exit 9
if [ -n "$(git status --porcelain --untracked-files=no)" ]; then echo "repo dirty, refusing"; exit 9; fi
git apply "$PATCH" || { echo "PATCH DOES NOT APPLY"; exit 8; }
cd /verif
VERIF_NO_DETERMINISM=1 ./check $ID $TIER 2>&1 | grep -v -E 'E0000|WARNING: All' | cut -c1-400 | tail -${LINES_OUT:-6}
RC=${PIPESTATUS[0]}
git -C /repo checkout -- . 
echo "exit=$RC"
