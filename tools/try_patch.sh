#!/bin/bash
# usage: try_patch.sh <patch.diff> <ID> [tier]  -- like try_mutant.sh but in a scratch worktree (never touches /repo)
PATCH=$(readlink -f $1); ID=$2; TIER=${3:-quick}
WT=/var/tmp/try-patch-$$
trap 'git -C /repo worktree remove --force $WT 2>/dev/null; rm -rf /var/tmp/try-patch-out-$$ /var/tmp/try-patch-build-$$' EXIT
git -C /repo worktree add -q --detach $WT HEAD || exit 9
git -C $WT apply $PATCH || git -C $WT apply -3 $PATCH || { echo "PATCH DOES NOT APPLY"; exit 8; }
cd /verif
VERIF_REPO=$WT VERIF_OUT=/var/tmp/try-patch-out-$$ VERIF_BUILD=/var/tmp/try-patch-build-$$ VERIF_NO_DETERMINISM=1 ./check $ID $TIER 2>&1 | grep -v -E 'E0000|WARNING: All|KNOWN' | cut -c1-400 | tail -${LINES_OUT:-6}
echo "exit=${PIPESTATUS[0]}"
