#!/usr/bin/env python3
"""Validate MANIFEST.json and every evidence file against the schemas (run with python3-vt)."""
import json, sys, glob, jsonschema
man = json.load(open('/verif/MANIFEST.json'))
jsonschema.validate(man, json.load(open('/root/.vp/MANIFEST.schema.json')))
es = json.load(open('/root/.vp/EVIDENCE.schema.json'))
props = [json.loads(l)['id'] for l in open('/verif/properties.jsonl')]
claimed = [c['property_id'] for c in man['checks']]
na = [n['property_id'] for n in man.get('not_applicable', [])]
assert sorted(claimed + na) == sorted(props), (sorted(claimed + na), props)
for c in man['checks']:
    try:
        jsonschema.validate(json.load(open('/verif/' + c['evidence_file'])), es)
    except Exception as e:
        print("EVIDENCE PROBLEM", c['property_id'], str(e)[:300]); sys.exit(1)
print("manifest ok; claimed", claimed)
